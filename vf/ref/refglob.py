"""Reference semantics of find_files/find_paths, written from
doc/reference/builtins.md (find_files, find_paths, FindResult,
filter_by_platform).  Deliberately naive: every pattern walks *everything* below
its literal prefix, every entry is matched from scratch against every pattern,
nothing is pruned, nothing is cached.  Does not import bfg9000.

Where the documentation leaves a point open the reference computes two answers,
a lower one (`must`: selected under every reading) and an upper one (`may`:
selected under some reading); the check demands  must <= result <= may.  The
open points are

  hidden   "Globs work much the same as in POSIX shells" vs "`*`: 0 or more of
           any character": whether a wildcard (or `**`) may match a leading
           dot.  lower = POSIX rule (it may not), upper = it may.
  base     whether `exclude` globs and filter verdicts are applied to the
           directories of the pattern's literal prefix (and above it).
           lower = yes, every ancestor counts; upper = only directories
           strictly below the pattern's own literal prefix (and the entry
           itself) count.
  platform filter_by_platform: "names like PLATFORM or foo_PLATFORM.cpp" is
           decided only for the spelled-out shapes; everything else that
           mentions a foreign platform name (incl. children of a directory
           named after one) may go either way.
  symlink  directories reached through a symbolic link *below* the literal
           prefix are not enumerated at all (the caller counts such results as
           unasserted); the link itself is an entry (a directory if it points
           to one).  A symbolic link *inside* the literal prefix is plain path
           resolution ("every pattern whose literal prefix exists"): what lies
           below it is required - unless another pattern of the same call has
           its literal prefix strictly above that link, because then the link
           is also a directory found below a base (upper bound only).

Fixed readings (DESIGN.md C11 "S"): an explicit `type` also governs the
extra/exclude globs; without it a simple glob selects directories iff it ends
with '/'.  The literal-prefix directory itself is an entry ("** = zero or more
components").
"""
import os

GLOBCHARS = '*?['
ANY = object()       # a hypothetical directory member with an arbitrary name

KNOWN_PLATFORMS = ['posix', 'linux', 'darwin', 'cygwin', 'windows', 'winnt',
                   'win9x', 'msdos']


# --------------------------------------------------------------------------
# one path component

def parse_component(pat):
    """-> list of tokens: ('lit', c) | ('any1',) | ('star',) | ('set', neg, chars)"""
    toks = []
    i, n = 0, len(pat)
    while i < n:
        c = pat[i]
        if c == '*':
            toks.append(('star',))
            i += 1
        elif c == '?':
            toks.append(('any1',))
            i += 1
        elif c == '[':
            j = i + 1
            neg = False
            if j < n and pat[j] == '!':
                neg = True
                j += 1
            start = j
            if j < n and pat[j] == ']':     # a leading ']' is a member
                j += 1
            while j < n and pat[j] != ']':
                j += 1
            if j >= n:
                # no closing bracket: not a bracket expression
                toks.append(('lit', '['))
                i += 1
            else:
                toks.append(('set', neg, pat[start:j]))
                i = j + 1
        else:
            toks.append(('lit', c))
            i += 1
    return toks


def _match_toks(toks, ti, name, ni):
    while ti < len(toks):
        t = toks[ti]
        if t[0] == 'star':
            # 0 or more of any character
            for k in range(ni, len(name) + 1):
                if _match_toks(toks, ti + 1, name, k):
                    return True
            return False
        if ni >= len(name):
            return False
        ch = name[ni]
        if t[0] == 'lit':
            if ch != t[1]:
                return False
        elif t[0] == 'set':
            if (ch in t[2]) == t[1]:
                return False
        # any1 matches whatever ch is
        ti += 1
        ni += 1
    return ni == len(name)


def comp_match(pat, name, strict_dot):
    """Does the single-component glob `pat` match `name`?"""
    if name is ANY:
        return True
    toks = pat if isinstance(pat, list) else parse_component(pat)
    if strict_dot and name.startswith('.'):
        # POSIX: a leading period must be matched explicitly
        if not toks or toks[0] != ('lit', '.'):
            return False
    return _match_toks(toks, 0, name, 0)


def is_glob_component(c):
    return any(ch in c for ch in GLOBCHARS)


# --------------------------------------------------------------------------
# whole paths

def split_pattern(s):
    """-> (components, trailing_slash)"""
    comps = [c for c in s.split('/') if c not in ('', '.')]
    return comps, s.endswith('/')


def match_path(pcomps, names, strict_dot):
    """pcomps: pattern components ('**' = zero or more components)."""
    if not pcomps:
        return not names
    head = pcomps[0]
    if head == '**':
        # zero components ...
        if match_path(pcomps[1:], names, strict_dot):
            return True
        # ... or one more
        if names:
            first = names[0]
            if strict_dot and first is not ANY and first.startswith('.'):
                return False
            return match_path(pcomps, names[1:], strict_dot)
        return False
    if not names:
        return False
    if not comp_match(head, names[0], strict_dot):
        return False
    return match_path(pcomps[1:], names[1:], strict_dot)


def walk_all(top):
    """Every entry below `top`: [(relative components, isdir, islink)].
    Symbolic links are entries but are not descended into."""
    out = []

    def rec(d, rel):
        try:
            names = sorted(os.listdir(d))
        except OSError:
            return
        for n in names:
            p = os.path.join(d, n)
            isdir = os.path.isdir(p)
            islink = os.path.islink(p)
            out.append((rel + [n], isdir, islink))
            if isdir and not islink:
                rec(p, rel + [n])
    rec(top, [])
    return out


# --------------------------------------------------------------------------
# filters

def platform_verdicts(comps, target=('linux', 'posix')):
    """Possible verdicts of filter_by_platform for the path `comps`."""
    foreign = [p for p in KNOWN_PLATFORMS if p not in target]
    if not comps:
        return {'include'}
    name = comps[-1]
    clear = False
    for p in foreign:
        # only the two shapes the documentation spells out
        if name == p:
            clear = True                      # PLATFORM
        else:
            k = name.find('_' + p + '.')
            if k > 0:
                ext = name[k + len(p) + 2:]
                if ext and '.' not in ext:
                    clear = True              # foo_PLATFORM.ext
    if clear:
        return {'not_now'}
    if any(p in c for p in foreign for c in comps):
        return {'include', 'not_now'}
    return {'include'}


def rules_verdict(rules, comps, isdir):
    """The generated lambda filters: first matching rule wins."""
    base = comps[-1] if comps else ''
    for pred, arg, result in rules:
        if pred == 'base_startswith':
            ok = base.startswith(arg)
        elif pred == 'base_endswith':
            ok = base.endswith(arg)
        elif pred == 'base_contains':
            ok = arg in base
        elif pred == 'base_eq':
            ok = base == arg
        elif pred == 'isdir':
            ok = bool(isdir) == bool(arg)
        elif pred == 'depth_ge':
            ok = len(comps) >= arg
        else:
            raise ValueError(pred)
        if ok:
            return result
    return 'include'


def filter_verdicts(flt, comps, isdir):
    if flt is None:
        return {'include'}
    if flt == 'platform':
        return platform_verdicts(comps)
    return {rules_verdict(flt['rules'], comps, isdir)}


# --------------------------------------------------------------------------
# a whole call

def _type_ok(typ, isdir):
    return typ == '*' or (typ == 'd') == bool(isdir)


class SimpleGlob:
    def __init__(self, pattern, typ):
        stripped = pattern.rstrip('/')
        self.pattern = pattern
        self.type = typ if typ is not None else \
            ('d' if stripped != pattern else 'f')
        self.toks = parse_component(stripped)

    def match(self, name, isdir, strict_dot):
        return (_type_ok(self.type, isdir) and
                comp_match(self.toks, name, strict_dot))


class Pattern:
    def __init__(self, spec, typ, rootdirs):
        s = spec['s']
        root = spec.get('root') or 'srcdir'
        if s.startswith('/'):
            root = 'absolute'
        comps, trailing = split_pattern(s)
        idx = None
        for i, c in enumerate(comps):
            if is_glob_component(c):
                idx = i
                break
        if idx is None:
            raise ValueError('not a glob: %r' % s)
        self.root = root
        self.base = comps[:idx]
        self.glob = comps[idx:]
        self.type = typ if typ is not None else ('d' if trailing else 'f')
        self.basedir = os.path.join(rootdirs[root], *self.base)
        self.nruns = 1 + sum(1 for i, c in enumerate(self.glob) if c == '**'
                             and (i == 0 or self.glob[i - 1] != '**'))


def select(call, find_exclude, rootdirs):
    """call: {'patterns': [{'s','root'}], 'type', 'extra', 'exclude', 'filter',
    'dist'}.  rootdirs: {'srcdir':…, 'builddir':…, 'absolute': '/'}.

    -> {'must': set(keys), 'may': set(keys), 'universe': set(keys),
        'must_dist': set(keys), 'info': {key: {...}}}
    key = (root, 'a/b/c', isdir)
    """
    typ = call.get('type')
    pats = [Pattern(p, typ, rootdirs) for p in call['patterns']]
    extras = [SimpleGlob(g, typ) for g in (call.get('extra') or [])]
    excludes = [SimpleGlob(g, typ) for g in
                list(find_exclude) + list(call.get('exclude') or [])]
    flt = call.get('filter')

    info = {}
    for pi, p in enumerate(pats):
        if os.path.isdir(p.basedir):
            entries = [([], True, False)] + walk_all(p.basedir)
            prefix_is_file = False
        elif os.path.lexists(p.basedir) and p.base:
            # The literal prefix names a file: nothing lies below it.  Whether
            # `file/**` ("zero components") selects the file itself is open:
            # upper bound only.
            entries = [([], False, os.path.islink(p.basedir))]
            prefix_is_file = True
        else:
            continue
        # does the literal prefix itself pass through a symbolic link?
        cur, base_links = rootdirs[p.root], []
        for comp in p.base:
            cur = os.path.join(cur, comp)
            base_links.append(os.path.islink(cur))
        for rel, isdir, islink in entries:
            full = p.base + rel
            key = (p.root, '/'.join(full), bool(isdir))
            rec = info.setdefault(key, {'full': full, 'isdir': bool(isdir),
                                        'islink': islink, 'root': p.root,
                                        'pat': {}})
            tok = _type_ok(p.type, isdir)
            # reached through symlinked directories of the literal prefix
            # (walk_all does not descend links, so only there): required,
            # unless another pattern's prefix lies strictly above such a link
            links = base_links if rel else base_links[:-1]
            via_link = any(
                is_link and any(q is not p and q.root == p.root and
                                len(q.base) <= i and
                                p.base[:len(q.base)] == q.base for q in pats)
                for i, is_link in enumerate(links))
            rec['via_link'] = rec.get('via_link', False) or via_link
            rec['pat'][pi] = {
                'inc_lo': (tok and match_path(p.glob, rel, True) and
                           not prefix_is_file and not via_link),
                'inc_hi': tok and match_path(p.glob, rel, False),
                # could a (differently named) sibling of this entry match?
                'sib_lo': bool(rel) and match_path(p.glob, rel[:-1] + [ANY],
                                                   True),
                'baselen': len(p.base),
                'base_link': any(links),
            }

    def excluded(comps, isdir, strict):
        """Is a path with these components knocked out by an exclude glob or
        (for directories) by a filter verdict of exclude_recursive?"""
        name = comps[-1] if comps else ''
        if any(g.match(name, isdir, strict) for g in excludes):
            return 'exclude-glob'
        v = filter_verdicts(flt, comps, isdir)
        if isdir:
            if strict and v == {'exclude_recursive'}:
                return 'filter'
            if not strict and 'exclude_recursive' in v:
                return 'filter'
        return None

    must, may, must_dist = set(), set(), set()
    for key, rec in info.items():
        full, isdir = rec['full'], rec['isdir']
        verdicts = filter_verdicts(flt, full, isdir)
        rec['filter'] = sorted(verdicts)
        # chain of (components, isdir) from the root of the tree to the entry
        chain = [(full[:n], True if n < len(full) else isdir)
                 for n in range(0, len(full) + 1)]
        ex_hi = None
        for comps, d in chain:
            why = excluded(comps, d, False)
            if why:
                ex_hi = (why, len(comps))
                break
        rec['ex_hi'] = ex_hi
        inc_lo = any(m['inc_lo'] for m in rec['pat'].values())
        if inc_lo and not ex_hi and verdicts == {'include'}:
            must.add(key)
        # upper bound: per pattern, only what lies strictly below its own base
        rec['ex_lo'] = {}
        for pi, m in rec['pat'].items():
            ex_lo = None
            for comps, d in chain:
                if len(comps) <= m['baselen']:
                    continue
                why = excluded(comps, d, True)
                if why:
                    ex_lo = (why, len(comps))
                    break
            rec['ex_lo'][pi] = ex_lo
            if m['inc_hi'] and not ex_lo and 'include' in verdicts:
                may.add(key)
        # source distribution
        if call.get('dist', True) and rec['root'] == 'srcdir' and full:
            name = full[-1]
            ext_lo = any(g.match(name, isdir, True) for g in extras)
            sib = any(m['sib_lo'] for m in rec['pat'].values())
            if (not ex_hi and verdicts <= {'include', 'not_now'} and
                    not rec.get('via_link') and (inc_lo or (ext_lo and sib))):
                must_dist.add(key)
                rec['dist_why'] = 'found' if inc_lo else 'extra'
                if inc_lo and verdicts != {'include'}:
                    rec['dist_why'] = 'not_now'
    return {'must': must, 'may': may, 'universe': set(info),
            'must_dist': must_dist, 'info': info, 'patterns': pats}
