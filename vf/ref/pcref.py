"""Hand-written references for C17: version comparator, .pc escapers, a reader for
the Conflicts field, quote removal for pkg-config output.

Nothing here imports bfg9000.
"""
import shlex
import string

# --------------------------------------------------------------------------
# versions: dotted numerics only; (1, 2) < (1, 2, 1) like rpmvercmp / verspec


def vt(s):
    return tuple(int(x) for x in s.split('.'))


def spec_accepts(op, bound, v):
    a, b = vt(v), vt(bound)
    return {'==': a == b, '!=': a != b, '<': a < b, '<=': a <= b,
            '>': a > b, '>=': a >= b}[op]


def set_accepts(specs, v):
    """specs: [[op, 'X.Y'], ...] (conjunction, PEP-440 style set)."""
    return all(spec_accepts(op, b, v) for op, b in specs)


def parse_specs(text):
    """'>=1.2,<2.0' -> [['>=', '1.2'], ['<', '2.0']] (the generator's own syntax)."""
    out = []
    for part in (text or '').split(','):
        part = part.strip()
        if not part:
            continue
        for op in ('==', '!=', '<=', '>=', '<', '>'):
            if part.startswith(op):
                out.append([op, part[len(op):].strip()])
                break
        else:
            raise ValueError(part)
    return out


def satisfiable(specs):
    """Is there *any* dotted-numeric version accepted?  Candidates: every
    boundary, a point just above each boundary (b.1 lies strictly between b and the
    next two-field version), something below and something above everything."""
    cands = ['0', '999999']
    for op, b in specs:
        cands += [b, b + '.1']
    return any(set_accepts(specs, c) for c in cands)


def grid(specs, extra=('0.1', '9.9')):
    """Two-field candidate versions: every boundary and +- one step."""
    out = set(extra)
    for op, b in specs:
        x, y = vt(b)
        out.add('%d.%d' % (x, y))
        out.add('%d.%d' % (x, y + 1))
        if y > 0:
            out.add('%d.%d' % (x, y - 1))
        elif x > 0:
            out.add('%d.%d' % (x - 1, 99))
    return sorted(out, key=vt)


PC_OP = {'==': '=', '!=': '!=', '<': '<', '<=': '<=', '>': '>', '>=': '>='}


def pc_requirement_entries(name, specs):
    """Textbook pkg-config rendering: one entry per specifier (entries of a
    Requires list are all enforced)."""
    if not specs:
        return [name]
    return ['%s %s %s' % (name, PC_OP[op], b) for op, b in specs]


# --------------------------------------------------------------------------
# the Conflicts field as documented in pkg-config(1): "If a version of a
# package matches *any* of the conditions, then your package conflicts with it."

def read_field(pc_text, field):
    for line in pc_text.splitlines():
        if line.startswith(field + ':'):
            return line[len(field) + 1:].strip()
    return None


def parse_requirement_list(text):
    """'a >= 1.2, b, c = 3' -> [(name, op|None, version|None)] (pkg-config syntax:
    comma and/or space separated)."""
    toks = text.replace(',', ' ').split()
    out = []
    i = 0
    ops = {'=': '==', '!=': '!=', '<': '<', '<=': '<=', '>': '>', '>=': '>='}
    while i < len(toks):
        name = toks[i]
        if i + 2 < len(toks) and toks[i + 1] in ops:
            out.append((name, ops[toks[i + 1]], toks[i + 2]))
            i += 3
        else:
            out.append((name, None, None))
            i += 1
    return out


def conflicts_matches(entries, name, v):
    for n, op, b in entries:
        if n != name:
            continue
        if op is None or spec_accepts(op, b, v):
            return True
    return False


# --------------------------------------------------------------------------
# escaping a value for a Cflags/Libs field of a hand-written .pc file

_SAFE = set(string.ascii_letters + string.digits + '_@%+=:,./-')


def esc_backslash(v):
    out = []
    i = 0
    while i < len(v):
        c = v[i]
        if c == '$' and v[i + 1:i + 2] == '{':
            out.append('$\\{')
            i += 2
            continue
        if c in _SAFE or ord(c) > 127 or c == '$':
            out.append(c)
        else:
            out.append('\\' + c)
        i += 1
    return ''.join(out)


def esc_squote(v):
    out = ["'"]
    i = 0
    while i < len(v):
        c = v[i]
        if c == "'":
            out.append("'\\''")
        elif c == '#':
            out.append('\\#')
        elif c == '$' and v[i + 1:i + 2] == '{':
            out.append("$''{")
            i += 2
            continue
        else:
            out.append(c)
        i += 1
    out.append("'")
    return ''.join(out)


def esc_dquote(v):
    out = ['"']
    i = 0
    while i < len(v):
        c = v[i]
        if c in '"\\`':
            out.append('\\' + c)
        elif c == '#':
            out.append('\\#')
        elif c == '$' and v[i + 1:i + 2] == '{':
            out.append('$""{')
            i += 2
            continue
        else:
            out.append(c)
        i += 1
    out.append('"')
    return ''.join(out)


ESCAPERS = [('backslash', esc_backslash), ('squote', esc_squote),
            ('dquote', esc_dquote)]


# --------------------------------------------------------------------------
# reading pkg-config output: quote/backslash removal WITHOUT expansion

def split_output(raw):
    """bytes -> [str] | None (unbalanced quoting).  Bytes are kept 1:1 through
    latin-1 so that pkgconf's per-byte backslashes do not break UTF-8."""
    s = raw.decode('latin-1')
    try:
        parts = shlex.split(s, posix=True)
    except ValueError:
        return None
    return [p.encode('latin-1').decode('utf-8', 'surrogateescape') for p in parts]
