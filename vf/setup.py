"""Idempotent, offline set-up of the git-ignored build products (.build, .deps)."""
import fcntl
import os
import subprocess
import sys

from . import core

STUB_NAMES = ['vrec', 'vdrv', 'vcc', 'vc++', 'vfc', 'vclang', 'vclang++', 'var',
              'vwrap-gcc', 'vwrap-g++', 'vwrap-cc', 'vwrap-c++', 'vwrap-clang',
              'vwrap-clang++', 'vwrap-gfortran', 'vwrap-ar', 'vwrap-patchelf',
              'vwrap-doppel', 'vwrap-pkg-config', 'vwrap-cp', 'vwrap-ln']


def _newer(a, b):
    return (not os.path.exists(b)) or os.path.getmtime(a) > os.path.getmtime(b)


def ensure(verbose=False):
    os.makedirs(core.BIN, exist_ok=True)
    lock = open(os.path.join(core.BUILD, '.lock'), 'w')
    fcntl.flock(lock, fcntl.LOCK_EX)
    try:
        src = os.path.join(core.VERIF, 'stubs', 'vstub.c')
        exe = os.path.join(core.BIN, 'vstub')
        if _newer(src, exe):
            tmp = exe + '.tmp%d' % os.getpid()
            subprocess.run(['gcc', '-O1', '-Wall', '-o', tmp, src], check=True)
            os.replace(tmp, exe)
            if verbose:
                print('built', exe)
        for n in STUB_NAMES:
            p = os.path.join(core.BIN, n)
            if not os.path.islink(p):
                try:
                    os.symlink('vstub', p)
                except FileExistsError:
                    pass
        ninja = os.path.join(core.BIN, 'ninja')
        want = ('#!/bin/sh\nexec %s -S %s "$@"\n' %
                (core.PY, os.path.join(core.VERIF, 'vf', 'ref', 'refninja.py')))
        if not os.path.exists(ninja) or open(ninja).read() != want:
            with open(ninja + '.tmp', 'w') as f:
                f.write(want)
            os.chmod(ninja + '.tmp', 0o755)
            os.replace(ninja + '.tmp', ninja)
        if not os.path.isdir(os.path.join(core.DEPS, 'icontract')):
            r = subprocess.run(
                [os.path.join(core.VENV_BIN, 'pip'), 'install', '-q',
                 '--no-index', '--find-links', '/opt/veriftools/wheels',
                 '--target', core.DEPS, 'icontract'],
                stdout=subprocess.PIPE, stderr=subprocess.STDOUT)
            if r.returncode != 0:
                sys.stderr.write(r.stdout.decode('utf-8', 'replace'))
                raise RuntimeError('cannot install icontract offline')
            if verbose:
                print('installed icontract into', core.DEPS)
    finally:
        fcntl.flock(lock, fcntl.LOCK_UN)
        lock.close()


if __name__ == '__main__':
    ensure(verbose=True)
    # self-tests of the trusted reference components
    for t in ('test_refninja.py',):
        subprocess.run([core.PY, os.path.join(core.VERIF, 'vf', 'ref', t)], check=True)
