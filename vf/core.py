"""Harness core: seeds, scratch dirs, parallel runner, verdicts, evidence, findings.

Every property module (vf/props/cNN.py) exposes

    LEVEL       evidence level string
    MODE        'process' (CPU-bound, in-process monitors) | 'thread' (drives subprocesses)
    RULE        text: how cases are generated, what is distinct / non-trivial
    ASSUMPTIONS list of strings
    def cases(tier, seed) -> iterable of JSON-serialisable case dicts
    def run_case(case) -> CaseResult
    def floors(tier) -> {counter name: minimum}   (below => INCONCLUSIVE)

A case is fully materialised data, so a replay file (= a case + what was seen)
re-runs without the generator.
"""
import concurrent.futures as cf
import hashlib
import json
import os
import random
import shutil
import subprocess
import sys
import tempfile
import time
import traceback

VERIF = os.path.dirname(os.path.dirname(os.path.abspath(__file__)))
REPO = os.environ.get('VERIF_REPO', '/repo')
VENV_BIN = '/venv/bin'
PY = os.path.join(VENV_BIN, 'python')
BUILD = os.path.join(VERIF, '.build')
BIN = os.path.join(BUILD, 'bin')
DEPS = os.path.join(VERIF, '.deps')
INJECT = os.path.join(VERIF, 'vf', 'inject')
NCPU = os.cpu_count() or 4
GUARD = 'BFG9000_VERIF'


# --------------------------------------------------------------------------
# results


class CaseResult:
    """What one case produced.  Plain data so that it pickles."""

    def __init__(self):
        self.violations = []      # [(mechanism tuple, witness dict)]
        self.events = {}          # counter -> int
        self.keys = []            # [(key, nontrivial bool)]
        self.classes = set()
        self.excluded = {}        # reason -> count
        self.inconclusive = None  # None | reason string
        self.sample = None        # one written-out sub-case
        self.evaluations = 0
        self.notes = []

    def ev(self, name, n=1):
        self.events[name] = self.events.get(name, 0) + n

    def key(self, key, nontrivial=True):
        self.keys.append((key if isinstance(key, str) else
                          json.dumps(key, sort_keys=True, default=str),
                          bool(nontrivial)))

    def violate(self, mechanism, witness):
        self.violations.append((tuple(mechanism), witness))

    def exclude(self, reason, n=1):
        self.excluded[reason] = self.excluded.get(reason, 0) + n


def digest(obj):
    return hashlib.sha1(json.dumps(obj, sort_keys=True, default=str)
                        .encode()).hexdigest()[:16]


# --------------------------------------------------------------------------
# scratch space and subject environments

_scratch_root = None


def scratch_root():
    global _scratch_root
    if _scratch_root is None:
        shared = os.environ.get('_VERIF_SCRATCH_ROOT')
        if shared and os.path.isdir(shared):
            _scratch_root = shared
            return _scratch_root
        base = os.environ.get('VERIF_SCRATCH')
        if base:
            os.makedirs(base, exist_ok=True)
            _scratch_root = tempfile.mkdtemp(prefix='vf-', dir=base)
        else:
            _scratch_root = tempfile.mkdtemp(prefix='verif-%d-' % os.getpid(),
                                             dir='/tmp')
        os.environ['_VERIF_SCRATCH_ROOT'] = _scratch_root
    return _scratch_root


def mkscratch(tag='case'):
    return tempfile.mkdtemp(prefix=tag + '-', dir=scratch_root())


def rmtree(path):
    if os.environ.get('VERIF_KEEP') == '1':
        return
    for _ in range(3):
        try:
            shutil.rmtree(path)
            return
        except FileNotFoundError:
            return
        except OSError:
            # files made read-only by a workload
            for d, ds, fs in os.walk(path):
                try:
                    os.chmod(d, 0o700)
                except OSError:
                    pass
            time.sleep(0.05)
    shutil.rmtree(path, ignore_errors=True)


def cleanup_scratch():
    global _scratch_root
    if _scratch_root and os.environ.get('VERIF_KEEP') != '1':
        shutil.rmtree(_scratch_root, ignore_errors=True)
    os.environ.pop('_VERIF_SCRATCH_ROOT', None)
    _scratch_root = None


def base_env(extra=None, path_prepend=(), inject=False, monitors=None):
    """A scrubbed environment for subject processes."""
    path = list(path_prepend) + [BIN, VENV_BIN, '/usr/local/bin', '/usr/bin',
                                 '/bin']
    env = {
        'PATH': os.pathsep.join(path),
        'HOME': scratch_root(),
        'LANG': 'C.UTF-8',
        'LC_ALL': 'C.UTF-8',
        'PYTHONHASHSEED': '0',
        'PYTHONDONTWRITEBYTECODE': '1',
        'TMPDIR': scratch_root(),
    }
    pp = []
    if inject:
        pp.append(INJECT)
        pp.append(DEPS)
        env[GUARD] = '1'
    if REPO != '/repo':
        pp.append(REPO)
    if pp:
        env['PYTHONPATH'] = os.pathsep.join(pp)
    if monitors:
        env['BFG9000_VERIF_MONITORS'] = monitors
    if extra:
        env.update(extra)
    return env


class Timeout(Exception):
    pass


def run(argv, cwd=None, env=None, timeout=120, input=None, check=False):
    """subprocess.run with a watchdog; a firing raises Timeout (inconclusive)."""
    try:
        p = subprocess.run(argv, cwd=cwd, env=env, input=input,
                           stdout=subprocess.PIPE, stderr=subprocess.STDOUT,
                           timeout=timeout)
    except subprocess.TimeoutExpired:
        raise Timeout(' '.join(map(str, argv))[:200])
    out = p.stdout.decode('utf-8', 'replace') if p.stdout is not None else ''
    if check and p.returncode != 0:
        raise RuntimeError('command failed (%d): %r\n%s' %
                           (p.returncode, argv, out[-2000:]))
    return p.returncode, out


def use_repo_in_process():
    """Make in-process imports of bfg9000 come from REPO's working tree."""
    if REPO != '/repo' and REPO not in sys.path:
        sys.path.insert(0, REPO)
    if DEPS not in sys.path:
        sys.path.append(DEPS)


def tool_versions():
    out = {}
    for name, argv in [('make', ['make', '--version']),
                       ('gcc', ['gcc', '--version']),
                       ('clang', ['clang', '--version']),
                       ('pkg-config', ['pkg-config', '--version']),
                       ('python', [PY, '--version'])]:
        try:
            rc, o = run(argv, timeout=20)
            out[name] = o.splitlines()[0] if o else ''
        except Exception as e:  # noqa
            out[name] = 'absent'
    try:
        rc, o = run(['git', '-C', REPO, 'rev-parse', 'HEAD'], timeout=20)
        out['repo_head'] = o.strip()
        rc, o = run(['git', '-C', REPO, 'status', '--porcelain'], timeout=20)
        out['repo_dirty'] = bool(o.strip())
    except Exception:
        pass
    return out


# --------------------------------------------------------------------------
# setup (cheap, idempotent; also done lazily by ./check after a fresh restore)

def ensure_setup(verbose=False):
    from . import setup as vsetup
    vsetup.ensure(verbose=verbose)


# --------------------------------------------------------------------------
# known findings

def load_findings():
    path = os.path.join(VERIF, 'known_findings.json')
    if not os.path.exists(path):
        return []
    with open(path) as f:
        return json.load(f)


def _lookup(witness, field):
    cur = witness
    for part in field.split('.'):
        if isinstance(cur, dict) and part in cur:
            cur = cur[part]
        else:
            return None
    return cur


def predicate_holds(pred, witness):
    """pred: {field: {op: value}}; ops eq, in, contains, contains_any, subset_of, startswith,
    regex, not_contains.  All clauses must hold.  A missing field fails."""
    import re
    for field, clause in (pred or {}).items():
        val = _lookup(witness, field)
        if val is None:
            return False
        for op, arg in clause.items():
            if op == 'eq':
                ok = val == arg
            elif op == 'in':
                ok = val in arg
            elif op == 'contains':
                ok = arg in val
            elif op == 'not_contains':
                ok = arg not in val
            elif op == 'contains_any':
                ok = any(a in val for a in arg)
            elif op == 'only_chars_from':
                # every "special" char of val is in arg
                ok = all(c in arg for c in val)
            elif op == 'subset_of':
                ok = isinstance(val, (list, tuple)) and all(v in arg for v in val)
            elif op == 'startswith':
                ok = isinstance(val, str) and val.startswith(arg)
            elif op == 'regex':
                ok = isinstance(val, str) and re.search(arg, val) is not None
            else:
                raise ValueError('unknown predicate op ' + op)
            if not ok:
                return False
    return True


def classify(pid, mechanism, witness, findings):
    for f in findings:
        if f.get('property') != pid or f.get('status') != 'known':
            continue
        fm = tuple(f['mechanism'])
        if len(fm) != len(mechanism) or any(a != '*' and a != b
                                            for a, b in zip(fm, mechanism)):
            continue
        if predicate_holds(f.get('predicate'), witness):
            return f
    return None


# --------------------------------------------------------------------------
# the driver

def _run_one(modname, case):
    import importlib
    t0 = time.time()
    try:
        mod = importlib.import_module(modname)
        res = mod.run_case(case)
    except Timeout as e:
        res = CaseResult()
        res.inconclusive = 'watchdog: %s' % e
    except Exception:
        res = CaseResult()
        res.inconclusive = 'harness-error: ' + traceback.format_exc()[-1500:]
    res.wall = time.time() - t0
    return res


def drive(pid, mod, tier, seed, replay=None, workers=None, limit=None):
    """Run a property module; write evidence; print verdict lines; return rc."""
    t0 = time.time()
    modname = mod.__name__
    scratch_root()   # before workers fork, so that they share it
    findings = load_findings()
    if replay:
        with open(replay) as f:
            rp = json.load(f)
        case_iter = [rp['case']]
    else:
        case_iter = mod.cases(tier, seed)
    if limit:
        import itertools
        case_iter = itertools.islice(case_iter, limit)

    workers = workers or int(os.environ.get('VERIF_JOBS', NCPU))
    mode = getattr(mod, 'MODE', 'thread')
    if mode == 'process':
        ex = cf.ProcessPoolExecutor(max_workers=workers)
    else:
        ex = cf.ThreadPoolExecutor(max_workers=workers)

    agg_events = {}
    keys = {}
    classes = set()
    excluded = {}
    samples = []
    evaluations = 0
    ncases = 0
    inconclusive = []
    viols = []        # (mechanism, witness, case)
    notes = []
    max_pending = workers * 3
    pending = {}
    budget = float(os.environ.get('VERIF_BUDGET_S', 0)) or None

    def harvest(done):
        nonlocal evaluations, ncases
        for fut in done:
            case = pending.pop(fut)
            try:
                res = fut.result()
            except Exception:
                res = CaseResult()
                res.inconclusive = ('worker-died: ' +
                                    traceback.format_exc()[-800:])
            ncases += 1
            evaluations += res.evaluations or 1
            for k, v in res.events.items():
                agg_events[k] = agg_events.get(k, 0) + v
            for k, nt in res.keys:
                keys[k] = keys.get(k, False) or nt
            classes.update(res.classes)
            for k, v in res.excluded.items():
                excluded[k] = excluded.get(k, 0) + v
            if res.inconclusive:
                inconclusive.append(res.inconclusive)
            if res.sample is not None and len(samples) < 6:
                samples.append(res.sample)
            for n in res.notes:
                if len(notes) < 20:
                    notes.append(n)
            for mech, wit in res.violations:
                viols.append((mech, wit, wit.pop('__case__', None) or case))

    try:
        for case in case_iter:
            if budget and time.time() - t0 > budget:
                notes.append('stopped generating at budget %ss' % budget)
                break
            fut = ex.submit(_run_one, modname, case)
            pending[fut] = case
            if len(pending) >= max_pending:
                done, _ = cf.wait(list(pending), return_when=cf.FIRST_COMPLETED)
                harvest(done)
        while pending:
            done, _ = cf.wait(list(pending), return_when=cf.FIRST_COMPLETED)
            harvest(done)
    finally:
        ex.shutdown(wait=True, cancel_futures=True)

    # ---- verdict
    rc = 0
    known_seen = {}
    new = []
    for mech, wit, case in viols:
        f = classify(pid, mech, wit, findings)
        if f is not None:
            known_seen.setdefault(f['what'], 0)
            known_seen[f['what']] += 1
        else:
            new.append((mech, wit, case))
    for what, n in sorted(known_seen.items()):
        print('KNOWN-FINDING: property=%s %s (seen %d times)' % (pid, what, n))

    rdir = os.path.join(VERIF, 'replays', pid)
    seen_mech = {}
    if new:
        os.makedirs(rdir, exist_ok=True)
    for mech, wit, case in new:
        n = seen_mech.get(mech, 0)
        seen_mech[mech] = n + 1
        if n >= 3:
            continue   # three witnesses per mechanism are enough
        name = '%s-%s-s%d-%s.json' % (tier, '_'.join(
            ''.join(ch if ch.isalnum() else '-' for ch in str(m)) for m in mech)[:60],
            seed, digest([mech, wit])[:8])
        path = os.path.join(rdir, name)
        with open(path, 'w') as f:
            json.dump({'property': pid, 'tier': tier, 'seed': seed,
                       'mechanism': list(mech), 'witness': wit, 'case': case,
                       'tool_versions': tool_versions()}, f, indent=1,
                      default=str)
        print('VIOLATION property=%s replay=%s mechanism=%s' %
              (pid, os.path.relpath(path, VERIF), '/'.join(map(str, mech))))
        rc = 1

    distinct_nt = sum(1 for v in keys.values() if v)
    floors = mod.floors(tier) if hasattr(mod, 'floors') else {}
    short = []
    if not replay:
        for name, minimum in floors.items():
            have = (distinct_nt if name == 'distinct_nontrivial'
                    else evaluations if name == 'evaluations'
                    else agg_events.get(name, 0))
            if have < minimum:
                short.append('%s=%d<%d' % (name, have, minimum))
        if ncases and len(inconclusive) > max(1, ncases * 0.05):
            short.append('inconclusive_cases=%d/%d' %
                         (len(inconclusive), ncases))
    if rc == 0 and short:
        print('INCONCLUSIVE property=%s %s' % (pid, ' '.join(short)))
        for r in inconclusive[:3]:
            print('  reason:', r[:1500])
        rc = 2

    wall = time.time() - t0
    if not replay:
        coverage = {
            'evaluations': evaluations,
            'distinct_nontrivial': distinct_nt,
            'distinct_total': len(keys),
            'rule': mod.RULE,
            'samples': samples,
            'cases': ncases,
            'monitor_events': dict(sorted(agg_events.items())),
            'classes_covered': sorted(classes),
            'excluded_by_calibration': excluded,
            'inconclusive_cases': len(inconclusive),
            'inconclusive_reasons': sorted(set(r[-900:] for r in inconclusive))[:5],
            'known_findings_seen': known_seen,
            'new_violation_mechanisms': {'/'.join(map(str, m)): n
                                         for m, n in seen_mech.items()},
            'floors': floors,
            'notes': notes,
            'tool_versions': tool_versions(),
            'verdict': {0: 'held-on-observed', 1: 'violated',
                        2: 'inconclusive'}[rc],
        }
        for k, v in getattr(mod, 'EXTRA_COVERAGE', {}).items():
            if callable(v):
                try:
                    coverage[k] = v(tier, dict(agg_events))
                except TypeError:
                    coverage[k] = v(tier)
            else:
                coverage[k] = v
        ev = {
            'property_id': pid, 'tier': tier, 'seed': seed,
            'level': mod.LEVEL, 'coverage': coverage,
            'assumptions': list(mod.ASSUMPTIONS),
            'wall_s': round(wall, 2),
            'violations': len(new),
        }
        # evidence/ describes /repo only: a run against a scratch copy (VERIF_REPO, used for
        # deliberate breaks and seeded changes) writes beside it, into a git-ignored directory
        # (a --limit run is a partial look at the workload and never evidence either)
        partial = limit or any(k.startswith('VERIF_') and k.endswith('_FILTER') and v
                               for k, v in os.environ.items())
        edir = os.path.join(VERIF, 'evidence' if REPO == '/repo' and not partial
                            else '.scratch-evidence')
        ev['coverage']['subject_tree'] = REPO
        os.makedirs(edir, exist_ok=True)
        tmp = os.path.join(edir, pid + '.json.tmp')
        with open(tmp, 'w') as f:
            json.dump(ev, f, indent=1, default=str)
        os.replace(tmp, os.path.join(edir, pid + '.json'))
    print('%s tier=%s seed=%d cases=%d evaluations=%d distinct_nontrivial=%d '
          'violations=%d known=%d inconclusive=%d wall=%.1fs -> %s' %
          (pid, tier, seed, ncases, evaluations, distinct_nt, len(new),
           sum(known_seen.values()), len(inconclusive), wall,
           {0: 'HELD (on what was observed)', 1: 'VIOLATED',
            2: 'INCONCLUSIVE'}[rc]))
    cleanup_scratch()
    return rc


def rng_for(seed, *salt):
    return random.Random('%d/%s' % (seed, '/'.join(map(str, salt))))
