"""Out-of-tree instrumentation for bfg9000 subject processes.

Reached by putting this directory on PYTHONPATH.  Completely inert unless
BFG9000_VERIF=1.  Switches (all optional):

  BFG9000_VERIF_ROLE      regex on the process command line; only matching
                          processes are instrumented (default: bfg9000|9k)
  BFG9000_VERIF_TRACE     file: JSON lines, one O_APPEND write per event, of every
                          file-system mutation boundary and spawned process
  BFG9000_VERIF_WATCH     only paths under this directory prefix are boundaries
                          (default: everything except /proc, /dev, pyc caches)
  BFG9000_VERIF_CRASH_AT  k: os._exit(137) at the k-th boundary (SIGKILL
                          semantics: unflushed buffers are lost)
  BFG9000_VERIF_PARTIAL   n: with CRASH_AT pointing at a 'before-close' boundary,
                          leave exactly the first n bytes of the file
  BFG9000_VERIF_RAISE_AT  k:Kind  raise Kind at the k-th rule-emission hook entry
                          (Kind: ENOSPC | RuntimeError | KeyboardInterrupt)
  BFG9000_VERIF_MONITORS  comma list of vf.mon.<name> plugins to install
  BFG9000_VERIF_MONLOG    file the plugins append their JSON-lines reports to
"""
import os
import sys

if os.environ.get('BFG9000_VERIF') == '1':
    def _cmdline():
        try:
            with open('/proc/self/cmdline', 'rb') as f:
                return f.read().replace(b'\0', b' ').decode('utf-8', 'replace')
        except OSError:
            return ' '.join(sys.argv)

    def _install():
        import re
        role = os.environ.get('BFG9000_VERIF_ROLE', r'bfg9000|9k')
        cmd = _cmdline()
        if not re.search(role, cmd):
            return
        here = os.path.dirname(os.path.abspath(__file__))
        verif = os.path.dirname(os.path.dirname(here))
        if verif not in sys.path:
            sys.path.append(verif)
        try:
            from vf.inject import tracer
            tracer.install(cmd)
        except Exception as e:      # never break the subject silently
            sys.stderr.write('BFG9000_VERIF: instrumentation failed: %r\n' % (e,))
            os._exit(99)

    _install()
