"""FS-mutation tracer, crash failpoints and monitor plug-in loader (subject side)."""
import atexit
import builtins
import io
import json
import os
import sys

_fd = None
_n = 0
_crash_at = None
_fault = None
_partial = None
_watch = None
_busy = False
_cmd = ''
_pid = None

_SKIP_PREFIX = ('/proc/', '/dev/', '/sys/')


def _emit(rec):
    if _fd is None:
        return
    data = (json.dumps(rec) + '\n').encode()
    os.write(_fd, data)


def _watched(path):
    try:
        if isinstance(path, int):
            return False
        path = os.fspath(path)
        if isinstance(path, bytes):
            path = path.decode('utf-8', 'surrogateescape')
    except TypeError:
        return False
    ap = os.path.abspath(path)
    if ap.startswith(_SKIP_PREFIX) or ap.endswith('.pyc'):
        return False
    if _fd is not None and ap == _trace_path:
        return False
    if _watch and not (ap == _watch or ap.startswith(_watch + '/')):
        return False
    return ap


def boundary(op, phase, path, **extra):
    """One numbered mutation boundary.  May not return (crash failpoint)."""
    global _n
    if os.getpid() != _pid:
        return          # a forked child before exec: not ours
    _n += 1
    rec = {'n': _n, 'op': op, 'phase': phase, 'path': path, 'pid': _pid}
    rec.update(extra)
    if _crash_at is not None and _n == _crash_at:
        if _fault is None:
            rec['crash'] = True
            _emit(rec)
            os._exit(137)
        if phase == 'before':
            # I/O error failpoint: the operation about to happen fails with this errno
            import errno
            rec['fault'] = _fault
            _emit(rec)
            code = getattr(errno, _fault)
            raise OSError(code, os.strerror(code), path)
    _emit(rec)


def _audit(event, args):
    global _busy
    if _busy:
        return
    if event == 'open':
        path, mode, flags = args
        if not isinstance(flags, int):
            return
        if not flags & (os.O_WRONLY | os.O_RDWR | os.O_CREAT | os.O_TRUNC |
                        os.O_APPEND):
            return
        ap = _watched(path)
        if not ap:
            return
        _busy = True
        try:
            boundary('open', 'before', ap, trunc=bool(flags & os.O_TRUNC))
        finally:
            _busy = False
    elif event == 'subprocess.Popen':
        _busy = True
        try:
            exe, pargs = args[0], args[1]
            _emit({'n': None, 'op': 'spawn', 'pid': _pid,
                   'argv': [str(a) for a in (pargs if isinstance(pargs, (list, tuple))
                                             else [pargs])][:40]})
        finally:
            _busy = False


def _wrap_os(name, npaths=1):
    orig = getattr(os, name)

    def wrapper(*args, **kwargs):
        global _busy
        if _busy:
            return orig(*args, **kwargs)
        aps = [_watched(a) for a in args[:npaths]]
        if not any(aps):
            return orig(*args, **kwargs)
        ap = [a for a in aps if a][-1]
        _busy = True
        try:
            boundary(name, 'before', ap)
        finally:
            _busy = False
        r = orig(*args, **kwargs)
        _busy = True
        try:
            boundary(name, 'after', ap)
        finally:
            _busy = False
        return r
    wrapper.__name__ = name
    wrapper.__wrapped__ = orig
    setattr(os, name, wrapper)


class _TracedText(io.TextIOWrapper):
    _vf_path = None
    _vf_closed = False

    def close(self):
        global _busy
        if self._vf_closed or self._vf_path is None or _busy:
            return super().close()
        self._vf_closed = True
        _busy = True
        try:
            if (_crash_at is not None and _n + 1 == _crash_at and
                    _partial is not None):
                # model a kill in the middle of writing: first n bytes only
                super().flush()
                os.ftruncate(self.fileno(), _partial)
            if _fault is not None and _crash_at is not None and _n + 1 == _crash_at:
                # the final flush fails (disc full): part of the data is on disc, close() raises
                super().flush()
                os.ftruncate(self.fileno(), os.fstat(self.fileno()).st_size // 2)
                try:
                    boundary('close', 'before', self._vf_path)
                finally:
                    super().close()
            boundary('close', 'before', self._vf_path)
        finally:
            _busy = False
        r = super().close()
        _busy = True
        try:
            boundary('close', 'after', self._vf_path)
        finally:
            _busy = False
        return r


class _TracedBin(io.BufferedWriter):
    """A binary file opened for writing (shutil copies, ...): its close is a boundary, too."""
    _vf_path = None
    _vf_closed = False

    def close(self):
        global _busy
        if self._vf_closed or self._vf_path is None or _busy:
            return super().close()
        self._vf_closed = True
        _busy = True
        try:
            if (_crash_at is not None and _n + 1 == _crash_at and
                    _partial is not None):
                super().flush()
                os.ftruncate(self.fileno(), _partial)
            boundary('close', 'before', self._vf_path)
        finally:
            _busy = False
        r = super().close()
        _busy = True
        try:
            boundary('close', 'after', self._vf_path)
        finally:
            _busy = False
        return r


_orig_open = builtins.open


def _open(file, mode='r', buffering=-1, encoding=None, errors=None,
          newline=None, closefd=True, opener=None):
    global _busy
    textwrite = ('b' not in mode and any(c in mode for c in 'wax+') and
                 buffering == -1 and opener is None and closefd)
    ap = _watched(file) if textwrite and not _busy else False
    binwrite = ('b' in mode and any(c in mode for c in 'wax') and '+' not in mode and
                buffering == -1 and opener is None and closefd and not _busy)
    if binwrite:
        bp = _watched(file)
        if bp:
            raw = io.FileIO(file, mode.replace('b', ''))      # audit 'open' fires here
            _busy = True
            try:
                boundary('open', 'after', bp)
            finally:
                _busy = False
            f = _TracedBin(raw)
            f._vf_path = bp
            return f
    if not ap:
        return _orig_open(file, mode, buffering, encoding, errors, newline,
                          closefd, opener)
    raw = io.FileIO(file, mode.replace('t', ''))      # audit 'open' fires here
    _busy = True
    try:
        boundary('open', 'after', ap)
    finally:
        _busy = False
    try:
        buf = io.BufferedWriter(raw) if '+' not in mode else io.BufferedRandom(raw)
        f = _TracedText(buf, encoding=encoding, errors=errors, newline=newline)
        f._vf_path = ap
        f.mode = mode
        return f
    except Exception:
        raw.close()
        raise


_trace_path = None


def install(cmd):
    global _fd, _crash_at, _fault, _partial, _watch, _cmd, _pid, _trace_path
    _cmd = cmd
    _pid = os.getpid()
    env = os.environ
    trace = env.get('BFG9000_VERIF_TRACE')
    crash = env.get('BFG9000_VERIF_CRASH_AT')
    raise_at = env.get('BFG9000_VERIF_RAISE_AT')
    monitors = env.get('BFG9000_VERIF_MONITORS')
    if trace or crash:
        if trace:
            _trace_path = os.path.abspath(trace)
            _fd = os.open(_trace_path, os.O_WRONLY | os.O_APPEND | os.O_CREAT,
                          0o644)
            _emit({'n': None, 'op': 'process', 'pid': _pid, 'cmd': cmd[:300]})
        if crash:
            _crash_at = int(crash)
            _fault = env.get('BFG9000_VERIF_FAULT') or None
        if env.get('BFG9000_VERIF_PARTIAL'):
            _partial = int(env['BFG9000_VERIF_PARTIAL'])
        w = env.get('BFG9000_VERIF_WATCH')
        _watch = os.path.abspath(w) if w else None
        for name, npaths in (('remove', 1), ('unlink', 1), ('utime', 1),
                             ('mkdir', 1), ('rmdir', 1), ('rename', 2),
                             ('replace', 2), ('symlink', 2), ('link', 2)):
            _wrap_os(name, npaths)
        builtins.open = _open
        io.open = _open
        sys.addaudithook(_audit)
    if raise_at:
        from . import raiser
        raiser.install(raise_at, _emit)
    if monitors:
        monlog = env.get('BFG9000_VERIF_MONLOG')
        mods = []
        for name in monitors.split(','):
            name = name.strip()
            if not name:
                continue
            mod = __import__('vf.mon.' + name, fromlist=['x'])
            mod.install()
            mods.append((name, mod))

        def dump():
            global _busy
            if not monlog or os.getpid() != _pid:
                return
            _busy = True
            fd = os.open(monlog, os.O_WRONLY | os.O_APPEND | os.O_CREAT, 0o644)
            try:
                for name, mod in mods:
                    rep = mod.report()
                    rep['monitor'] = name
                    rep['pid'] = _pid
                    rep['cmd'] = cmd[:200]
                    os.write(fd, (json.dumps(rep, default=str) + '\n').encode())
            finally:
                os.close(fd)
        atexit.register(dump)
