"""Exception failpoints at rule-emission hook entries (subject side).

BFG9000_VERIF_RAISE_AT=<k>:<Kind>  raises Kind at the k-th entry of a function
registered in a backend's rule_handler / pre_rules_hook / post_rules_hook, or of
a builtin post-execute hook.  k=0 only counts (each entry is logged to the
trace as {"op": "hook", "n": k, "name": ...}).
"""
import errno

_n = 0


def install(spec, emit):
    k_s, _, kind = spec.partition(':')
    k = int(k_s)
    import bfg9000.backends as B

    def tick(fn):
        global _n
        _n += 1
        name = getattr(fn, '__module__', '?') + '.' + getattr(fn, '__name__', '?')
        emit({'n': None, 'op': 'hook', 'hook_n': _n, 'name': name})
        if k and _n == k:
            emit({'n': None, 'op': 'raise', 'hook_n': _n, 'name': name, 'kind': kind})
            if kind == 'ENOSPC':
                raise OSError(errno.ENOSPC, 'No space left on device (injected)')
            elif kind == 'KeyboardInterrupt':
                raise KeyboardInterrupt()
            raise RuntimeError('injected failure')

    def hook_run(self, *args, **kwargs):
        for i in self.hooks:
            tick(i)
            i(*args, **kwargs)

    def handler_run(self, edges, *args, **kwargs):
        for e in edges:
            fn = self.handlers[type(e)]
            tick(fn)
            fn(e, *args, **kwargs)

    B.BuildHook.run = hook_run
    B.BuildRuleHandler.run = handler_run
