"""argfid: argument-fidelity workload shared by C01 (Make) and C02 (Ninja).

A *slot* is one (context, string) pair placed in a generated build.bfg; the
recording stubs log the argv/environ that really arrive.  The expected value is
the literal the generator wrote into the script - nothing bfg9000 computes is
reused.  A case is a list of slots (one configure, one back-end run); slots
whose record is missing or wrong are re-run isolated (own script) so that one
bad line can neither hide nor implicate the others, and the culprit characters
are found by single-character probes in the same context (mechanism
classification).
"""
import os
import re
import shlex

from .. import core, proj
from ..core import CaseResult

# ---------------------------------------------------------------- strings

ASCII = [chr(c) for c in range(0x20, 0x7f)] + ['\t']
UNICODE = ['é', ' ', '中', '\U0001f600', 'é', 'א',
           '​', '‮', 'ß', 'Ж']
LOADED = list(' \t\'"$#%&()*?[]:,@!+~{};=|<>\\`^-')
# long values with runs of blanks at every column: a writer that wraps long lines (Ninja's
# '$'-newline continuation skips the leading blanks of the next line) must not eat any of them
LONG_BLANKS = ['w' + ' ' * 120 + 'w', 'ab  ' * 40 + 'z', 'a   b ' * 30 + 'z', ' ' * 90,
               'x' * 75 + '  ' + 'y' * 75 + '   ' + 'z']
CURATED = LONG_BLANKS + ['', ' ', '  ', 'a b', "it's", '"q"', '$(HOME)', '${HOME}', '$$', '$HOME',
           '`echo x`', '$(shell echo x)', 'a;b', 'a && b', '>o', '<i', 'a|b', '*',
           '~', '~/x', '#c', 'a#b', '%', 'a%b', '\\', 'a\\', '\\\\', 'a\\ b',
           "'", "''", '"', "a'b\"c", '-n', '-e', '--', '@x', '+x', '-x', '!x',
           '{a,b}', '[a]', 'a=b', '=', 'x:y', 'a,b', '$@', '$<', '$^', '$in', '$out',
           '${out}', '$:', '$ ', 'a$', '$', 'line1\\nline2', '&', '&&', '||', '()',
           '$(', '${', ')', '}', 'a\tb', ' lead', 'trail ', "'\\''", "$'x'",
           '%PATH%', '^', 'a^b', '!', '!!', 'été 中文',
           'a:~', 'a:~/b', '~:~', '/opt/p:~/p', 'x=~', 'x=~/y', 'a:~root', '~+', '~-', 'a:~+/b',
           '\U0001f600 smile', 'x y']

CONTEXTS = ['cmd_arg', 'cmd_arg_reused_list', 'test_reused_list', 'cmd_env', 'cmd_str_envref', 'step_str_envref', 'cmd_word', 'test_word_env', 'cmds_multi', 'step_arg', 'step_jbos',
            'test_arg', 'test_env', 'driver_arg', 'driver_child', 'driver_child_wrap',
            'driver_nested', 'compile_opt', 'compile_opt_str', 'define_value',
            'link_opt', 'lib_opt', 'link_opt_str', 'include_path', 'desc_step', 'symlink_src', 'symlink_gen',
            'copy_src_desc']
SCRIPT_CONTEXTS = ['global_opt', 'global_opt_str', 'global_link_opt', 'global_link_opt_static',
                   'env_cflags',
                   'env_cppflags', 'env_ldflags', 'env_ldlibs']

SHELL_BUILTIN_WORDS = {':', '.', '[', '!', '{', '}'}


def nontrivial(s):
    return re.search(r'[^A-Za-z0-9_./-]', s) is not None or s == ''


def admissible(ctx, s):
    """Is (ctx, s) inside the property's quantifier / expressible at all?"""
    if '\0' in s or '\n' in s or '\r' in s:
        return False
    if ctx in ('cmd_word', 'test_word_env'):
        if s in ('', '.', '..') or '/' in s or s in SHELL_BUILTIN_WORDS:
            return False
        if len(s.encode('utf-8')) > 200:
            return False
        # (a word of the form NAME=value would be an assignment to sh if left bare, a leading
        # '-' an option: both are legitimate program names and generated)
    if ctx in ('symlink_src', 'copy_src_desc', 'symlink_gen'):
        # a source file name: one component, nothing the file system refuses.  Characters
        # for which Make itself has no working escape in prerequisites are C04's business
        # (calibrated there); keep to names make can carry as a prerequisite.
        if s in ('', '.', '..') or '/' in s or re.match(r'^.:', s) or \
           len(s.encode('utf-8')) > 150 or re.search(r"[%*?\[\]()'~|;=\\<>]", s) or \
           s[:1] in '- ' or s[-1:] == ' ':
            return False
    if ctx == 'include_path':
        # a directory name below the source dir, passed as a header_directory()
        if s in ('', '.', '..') or '/' in s or '\\' in s or s.startswith('~') or \
           re.match(r'^.:', s) or len(s.encode('utf-8')) > 200 or s != s.strip('/'):
            return False
    if ctx == 'lib_opt' and s == '':
        return False
    if ctx in ('compile_opt_str', 'link_opt_str', 'lib_opt_str', 'global_opt_str',
               'env_cflags', 'env_cppflags', 'env_ldflags', 'env_ldlibs'):
        # rendered by the generator as an sh-quoted string; the empty string
        # cannot be an element of a split list in every sh-splitter
        if s == '':
            return False
    if ctx in ('compile_opt', 'compile_opt_str', 'link_opt', 'link_opt_str',
               'lib_opt_str', 'global_opt', 'global_opt_str', 'global_link_opt',
               'global_link_opt_static', 'env_cflags', 'env_cppflags', 'env_ldflags', 'env_ldlibs'):
        # An empty word is a legitimate element of a LIST of options (['--param', '']); in
        # the string forms it is kept out (see above: not every sh-splitter can carry it).
        if s == '' and ctx not in ('compile_opt', 'link_opt', 'global_opt', 'global_link_opt',
                                   'global_link_opt_static'):
            return False
    return True


def sh_render(args, style):
    """Render an argument list as an sh-quoted string in a class on which
    POSIX sh and bfg9000's documented 'parsed according to shell rules' agree:
    single quotes (no ' inside) or double quotes (no \\ $ ` " inside)."""
    out = []
    for a in args:
        if style == 'bare' and a:
            # minimal quoting: only the characters sh itself needs quoted are quoted (runs of
            # them in single quotes, a ' as "'"), everything else - '#' or '~' inside a word,
            # '=', ':', '%', '{', non-ASCII - stays bare.  No backslashes: bfg9000 documents
            # that option strings are split without escape processing (doc/about/changes.md).
            w = ''
            for m in re.finditer(r"""('+)|([\s"\\$`&|;<>()*?\[\]!]+)|([^\s'"\\$`&|;<>()*?\[\]!]+)""", a):
                if m.group(1):
                    w += '"' + m.group(1) + '"'
                elif m.group(2):
                    w += "'" + m.group(2) + "'"
                elif not w and m.group(3)[0] in '#~':
                    w += "'" + m.group(3)[0] + "'" + m.group(3)[1:]
                else:
                    w += m.group(3)
            out.append(w)
            continue
        if style == 'single' and "'" not in a:
            out.append("'" + a + "'")
        elif not re.search(r'[\\$`"]', a):
            out.append('"' + a + '"')
        elif "'" not in a:
            out.append("'" + a + "'")
        else:
            # mixed: concatenate single-quoted runs and \' ... stays in class
            # only if no backslash form is needed -> use '"'"' splice
            out.append("'" + a.replace("'", "'\"'\"'") + "'")
    return ' '.join(out)


# ---------------------------------------------------------------- rendering

def _r(s):
    return repr(s)


def render_script(slots, script_slots=()):
    """-> (build.bfg text, wbin names {name: None}, run plan, expectations)"""
    L = []
    words = []
    cmd_targets = []
    incdirs = []
    srcfiles = []
    defaults = []
    have_tests = False
    have_default = False
    exp = {}      # slot id -> expectation dict
    L.append("# generated by vf.gen.argfid")
    genv = {}
    for sl in script_slots:
        ctx, s, i = sl['ctx'], sl['s'], sl['id']
        if ctx == 'global_opt':
            L.append("global_options([%s], lang='c')" % _r(s))
            exp[i] = {'kind': 'script-compile', 'opts': [s]}
        elif ctx == 'global_opt_str':
            # (every third string holds ONE word only: quoting still has to be undone)
            lst = [s, 'y' + s] if i % 3 else [s]
            L.append("global_options(%s, lang='c')" % _r(sh_render(lst, sl.get('style', 'single'))))
            exp[i] = {'kind': 'script-compile', 'opts': lst}
        elif ctx == 'global_link_opt':
            L.append("global_link_options([%s])" % _r(s))
            exp[i] = {'kind': 'script-link', 'opts': [s]}
        elif ctx == 'global_link_opt_static':
            # options for the OTHER link mode: the archiver gets them, the linker does not
            L.append("global_link_options([%s], mode='static')" % _r(s))
            exp[i] = {'kind': 'script-ar', 'opts': [s]}
        elif ctx in ('env_cflags', 'env_cppflags', 'env_ldflags', 'env_ldlibs'):
            var = {'env_cflags': 'CFLAGS', 'env_cppflags': 'CPPFLAGS',
                   'env_ldflags': 'LDFLAGS', 'env_ldlibs': 'LDLIBS'}[ctx]
            # (every third string holds ONE word only: quoting still has to be undone)
            lst = [s, 'z' + s] if i % 3 else [s]
            genv[var] = sh_render(lst, sl.get('style', 'single'))
            exp[i] = {'kind': 'script-compile' if var in ('CFLAGS', 'CPPFLAGS')
                      else 'script-link', 'opts': lst}
    need_src = False
    for sl in slots:
        ctx, s, i = sl['ctx'], sl['s'], sl['id']
        mark = '--slot=%d' % i
        if ctx == 'cmd_arg':
            L.append("c%d = command('c%d', cmd=['vrec', %s, %s, 'after'])" % (i, i, _r(mark), _r(s)))
            cmd_targets.append('c%d' % i)
            exp[i] = {'kind': 'argv', 'argv': ['vrec', mark, s, 'after']}
        elif ctx == 'cmd_arg_reused_list':
            # the script keeps working with ITS list and dict after the call: the step got the
            # words and values they held when it was declared
            L.append("l%d = ['vrec', %s, %s, 'after']" % (i, _r(mark), _r(s)))
            L.append("e%d = {'VF_E': %s}" % (i, _r(s)))
            L.append("c%d = command('c%d', cmd=l%d, environment=e%d)" % (i, i, i, i))
            L.append("l%d[2] = 'changed after the call'; l%d.append('more'); "
                     "e%d['VF_E'] = 'changed after the call'" % (i, i, i))
            cmd_targets.append('c%d' % i)
            exp[i] = {'kind': 'argv', 'argv': ['vrec', mark, s, 'after'], 'env': {'VF_E': s}}
        elif ctx == 'cmd_env':
            L.append("c%d = command('c%d', cmd=['vrec', %s], environment={'VF_E': %s})"
                     % (i, i, _r(mark), _r(s)))
            cmd_targets.append('c%d' % i)
            exp[i] = {'kind': 'argv', 'argv': ['vrec', mark], 'env': {'VF_E': s}}
        elif ctx == 'cmd_str_envref':
            # a shell-string command: environment= must hold for the whole line (every
            # process of a pipeline) and be visible to the line's own expansions
            L.append("c%d = command('c%d', cmd=%s, environment={'VF_E': %s})"
                     % (i, i, _r('vrec %s "$VF_E" | vrec %sb' % (mark, mark)), _r(s)))
            cmd_targets.append('c%d' % i)
            exp[i] = {'kind': 'argv', 'argv': ['vrec', mark, s], 'env': {'VF_E': s},
                      'more': {mark + 'b': ['vrec', mark + 'b']},
                      'more_env': {mark + 'b': {'VF_E': s}}}
        elif ctx == 'step_str_envref':
            L.append("t%d = build_step('o%d', cmd=%s, environment={'VF_E': %s})"
                     % (i, i, _r('vrec %s "$VF_E" --touch o%d --end && vrec %sb' % (mark, i, mark)),
                        _r(s)))
            defaults.append('t%d' % i)
            have_default = True
            exp[i] = {'kind': 'argv-prefix', 'argv': ['vrec', mark, s, '--touch'],
                      'out': 'o%d' % i, 'env': {'VF_E': s},
                      'more': {mark + 'b': ['vrec', mark + 'b']},
                      'more_env': {mark + 'b': {'VF_E': s}}}
        elif ctx == 'cmd_word':
            words.append(s)
            L.append("c%d = command('c%d', cmd=[%s, %s])" % (i, i, _r(s), _r(mark)))
            cmd_targets.append('c%d' % i)
            exp[i] = {'kind': 'argv', 'argv': [s, mark]}
        elif ctx == 'test_word_env':
            # the program's name as the first word of a test that also has an environment
            words.append(s)
            L.append("test([%s, %s], environment={'VF_E': 'e %d'})" % (_r(s), _r(mark), i))
            have_tests = True
            exp[i] = {'kind': 'argv', 'argv': [s, mark], 'env': {'VF_E': 'e %d' % i}}
        elif ctx == 'cmds_multi':
            L.append("c%d = command('c%d', cmds=[['vrec', %s, %s], ['vrec', %s, 'second', %s, 'x']])"
                     % (i, i, _r(mark), _r(s), _r(mark + 'b'), _r(s)))
            cmd_targets.append('c%d' % i)
            exp[i] = {'kind': 'argv', 'argv': ['vrec', mark, s],
                      'more': {mark + 'b': ['vrec', mark + 'b', 'second', s, 'x']}}
        elif ctx == 'step_arg':
            L.append("t%d = build_step('o%d', cmd=['vrec', %s, %s, '--touch', build_step.output, '--end'])"
                     % (i, i, _r(mark), _r(s)))
            defaults.append('t%d' % i)
            have_default = True
            exp[i] = {'kind': 'argv-prefix', 'argv': ['vrec', mark, s, '--touch'],
                      'out': 'o%d' % i}
        elif ctx == 'step_jbos':
            L.append("t%d = build_step('o%d', cmd=['vrec', %s, %s + build_step.output, "
                     "build_step.output + %s, '--touch', build_step.output, '--end'])"
                     % (i, i, _r(mark), _r(s), _r(s)))
            defaults.append('t%d' % i)
            have_default = True
            exp[i] = {'kind': 'jbos', 'mark': mark, 's': s, 'out': 'o%d' % i}
        elif ctx == 'test_arg':
            L.append("test(['vrec', %s, %s])" % (_r(mark), _r(s)))
            have_tests = True
            exp[i] = {'kind': 'argv', 'argv': ['vrec', mark, s]}
        elif ctx == 'test_reused_list':
            L.append("l%d = ['vrec', %s, %s]" % (i, _r(mark), _r(s)))
            L.append("e%d = {'VF_E': %s}" % (i, _r(s)))
            L.append("test(l%d, environment=e%d)" % (i, i))
            L.append("l%d[2] = 'changed after the call'; l%d.append('more'); "
                     "e%d['VF_E'] = 'changed after the call'" % (i, i, i))
            have_tests = True
            exp[i] = {'kind': 'argv', 'argv': ['vrec', mark, s], 'env': {'VF_E': s}}
        elif ctx == 'test_env':
            L.append("test(['vrec', %s], environment={'VF_E': %s})" % (_r(mark), _r(s)))
            have_tests = True
            exp[i] = {'kind': 'argv', 'argv': ['vrec', mark], 'env': {'VF_E': s}}
        elif ctx == 'driver_arg':
            L.append("d%d = test_driver(['vdrv', '--own=2', %s, %s])" % (i, _r(mark), _r(s)))
            L.append("test(['vrec', %s, 'child'], driver=d%d)" % (_r(mark + 'c'), i))
            have_tests = True
            exp[i] = {'kind': 'argv-prefix', 'argv': ['vdrv', '--own=2', mark, s],
                      'more': {mark + 'c': ['vrec', mark + 'c', 'child']}}
        elif ctx in ('driver_child', 'driver_child_wrap'):
            wrap = ', wrap_children=True' if ctx.endswith('wrap') else ''
            L.append("d%d = test_driver(['vdrv', '--own=1', %s]%s)" % (i, _r(mark + 'd'), wrap))
            L.append("test(['vrec', %s, %s, 'tail'], driver=d%d)" % (_r(mark), _r(s), i))
            have_tests = True
            exp[i] = {'kind': 'argv', 'argv': ['vrec', mark, s, 'tail']}
        elif ctx == 'driver_nested':
            L.append("d%d = test_driver(['vdrv', '--own=1', %s])" % (i, _r(mark + 'd')))
            L.append("e%d = test_driver(['vdrv', '--own=1', %s], parent=d%d)"
                     % (i, _r(mark + 'e'), i))
            L.append("test(['vrec', %s, %s, 'tail'], driver=e%d)" % (_r(mark), _r(s), i))
            have_tests = True
            exp[i] = {'kind': 'argv', 'argv': ['vrec', mark, s, 'tail']}
        elif ctx == 'compile_opt':
            need_src = True
            L.append("t%d = object_file('obj%d', file='s.c', options=[%s])" % (i, i, _r(s)))
            defaults.append('t%d' % i)
            have_default = True
            exp[i] = {'kind': 'compile', 'opts': [s], 'out': 'obj%d.o' % i}
        elif ctx == 'compile_opt_str':
            need_src = True
            # (every third string holds ONE word only: quoting still has to be undone)
            lst = [s, 'w' + s] if i % 3 else [s]
            L.append("t%d = object_file('obj%d', file='s.c', options=%s)"
                     % (i, i, _r(sh_render(lst, sl.get('style', 'single')))))
            defaults.append('t%d' % i)
            have_default = True
            exp[i] = {'kind': 'compile', 'opts': lst, 'out': 'obj%d.o' % i}
        elif ctx == 'define_value':
            need_src = True
            L.append("t%d = object_file('obj%d', file='s.c', options=[opts.define('N', %s)])"
                     % (i, i, _r(s)))
            defaults.append('t%d' % i)
            have_default = True
            exp[i] = {'kind': 'compile', 'opts': ['-DN=' + s], 'out': 'obj%d.o' % i}
        elif ctx == 'include_path':
            need_src = True
            incdirs.append('inc%d/%s' % (i, s))
            L.append("t%d = object_file('obj%d', file='s.c', "
                     "includes=[header_directory(%s)])" % (i, i, _r('inc%d/%s' % (i, s))))
            defaults.append('t%d' % i)
            exp[i] = {'kind': 'compile', 'opts': ['-I@SRC@/inc%d/%s' % (i, s)],
                      'out': 'obj%d.o' % i}
        elif ctx == 'desc_step':
            L.append("t%d = build_step('o%d', cmd=['vrec', %s, 'x y', '--touch', "
                     "build_step.output, '--end'], description=%s)" % (i, i, _r(mark), _r(s)))
            defaults.append('t%d' % i)
            exp[i] = {'kind': 'argv-prefix', 'argv': ['vrec', mark, 'x y', '--touch'],
                      'out': 'o%d' % i}
        elif ctx in ('symlink_src', 'copy_src_desc'):
            fname = 'f%d_%s' % (i, s)
            srcfiles.append(fname)
            mode = 'symlink' if ctx == 'symlink_src' else 'copy'
            L.append("t%d = copy_file('l%d', %s, mode=%r, description='described step %d')"
                     % (i, i, _r(fname), mode, i))
            defaults.append('t%d' % i)
            exp[i] = {'kind': 'copy', 'src': fname, 'out': 'l%d' % i,
                      'tool': 'vwrap-ln' if mode == 'symlink' else 'vwrap-cp'}
        elif ctx == 'symlink_gen':
            # a symbolic link to a GENERATED file in another build sub-directory: the link
            # target is a path relative to the link's own directory
            gname = 'gd%d/g_%s' % (i, s)
            L.append("g%d = build_step(%s, cmd=['vrec', '--touch', build_step.output, '--end'])"
                     % (i, _r(gname)))
            L.append("t%d = copy_file('ld%d/l%d', g%d, mode='symlink')" % (i, i, i, i))
            defaults.append('t%d' % i)
            exp[i] = {'kind': 'copy-gen', 'gen': gname, 'out': 'l%d' % i, 'linkdir': 'ld%d' % i,
                      'tool': 'vwrap-ln'}
        elif ctx == 'link_opt':
            need_src = True
            L.append("t%d = executable('ex%d', files=[shared_obj], link_options=[%s])" % (i, i, _r(s)))
            defaults.append('t%d' % i)
            have_default = True
            exp[i] = {'kind': 'link', 'opts': [s], 'out': 'ex%d' % i}
        elif ctx == 'lib_opt':
            # a library NAME (opts.lib): reaches the linker as -l<name> among the libraries,
            # i.e. through the rule's library variable, not through its option variable
            need_src = True
            L.append("t%d = executable('ex%d', files=[shared_obj], link_options=[opts.lib(%s)])"
                     % (i, i, _r(s)))
            defaults.append('t%d' % i)
            have_default = True
            exp[i] = {'kind': 'link', 'opts': ['-l' + s], 'out': 'ex%d' % i}
        elif ctx == 'link_opt_str':
            need_src = True
            # (every third string holds ONE word only: quoting still has to be undone)
            lst = [s, 'v' + s] if i % 3 else [s]
            L.append("t%d = executable('ex%d', files=[shared_obj], link_options=%s)"
                     % (i, i, _r(sh_render(lst, sl.get('style', 'single')))))
            defaults.append('t%d' % i)
            have_default = True
            exp[i] = {'kind': 'link', 'opts': lst, 'out': 'ex%d' % i}
        elif ctx == 'lib_opt_str':
            need_src = True
            # (every third string holds ONE word only: quoting still has to be undone)
            lst = [s, 'u' + s] if i % 3 else [s]
            L.append("static_library('lib%d', files=[shared_obj], link_options=%s)"
                     % (i, _r(sh_render(lst, sl.get('style', 'single')))))
            have_default = True
            exp[i] = {'kind': 'ar', 'opts': lst, 'out': 'liblib%d.a' % i}
        else:
            raise ValueError(ctx)
    head = []
    if need_src or script_slots:
        head.append("shared_obj = object_file('objS', file='s.c')")
    if script_slots:
        head.append("tS = executable('exS', files=[shared_obj])")
        head.append("lS = static_library('libS', files=[object_file('obj0', file='s.c')])")
        defaults.append('tS')
        defaults.append('lS')
    text = '\n'.join(L[:1] + [l for l in L[1:] if l.startswith('global_')] + head +
                     [l for l in L[1:] if not l.startswith('global_')]) + '\n'
    if cmd_targets:
        text += "alias('runcmds', [%s])\n" % ', '.join(cmd_targets)
    if defaults:
        text += "default(%s)\n" % ', '.join(defaults)
    return text, words, cmd_targets, have_tests, exp, genv, incdirs + [('file', f)
                                                                        for f in srcfiles]


# ---------------------------------------------------------------- running

class Outcome:
    def __init__(self):
        self.configure_rc = None
        self.configure_out = ''
        self.build = []      # (targets, rc, tail of output)
        self.records = []


def run_script(backend, slots, script_slots=(), keep=False):
    """Materialise, configure, run the back end.  -> (Outcome, exp)"""
    text, words, cmd_targets, have_tests, exp, genv, incdirs = render_script(slots,
                                                                              script_slots)
    root = core.mkscratch('argfid')
    out = Outcome()
    try:
        src = os.path.join(root, 'src')
        bld = os.path.join(root, 'bld')
        wbin = os.path.join(root, 'wbin')
        os.makedirs(wbin)
        files = {'build.bfg': text, 's.c': 'int main(void){return 0;}\n'}
        proj.write_tree(src, files)
        for d in incdirs:
            try:
                if isinstance(d, tuple):
                    with open(os.path.join(src, d[1]), 'w') as f:
                        f.write('data\n')
                else:
                    os.makedirs(os.path.join(src, d), exist_ok=True)
            except OSError:
                pass
        for w in set(words):
            try:
                os.symlink(os.path.join(core.BIN, 'vstub'), os.path.join(wbin, w))
            except OSError:
                pass
        log = os.path.join(root, 'log')
        extra = proj.stub_toolchain_env(log, backend)
        extra['VSTUB_ENVKEYS'] = 'VF_E'
        extra.update({'CP': 'vwrap-cp -f', 'SYMLINK': 'vwrap-ln -sf'})
        extra.update(genv)
        env = core.base_env(extra, path_prepend=[wbin])
        rc, o = proj.configure(src, bld, backend, env=env)
        out.configure_rc, out.configure_out = rc, o[-1500:]
        if rc == 0:
            targets = []
            if True:
                targets.append([])            # default
            if cmd_targets:
                targets.append(['runcmds'])
            if have_tests:
                targets.append(['test'])
            # flag variables that only exist in the environment of the BUILD tool were not
            # specified by the script (nor at configure time): they must not reach any step
            benv = dict(env)
            for var in ('CFLAGS', 'CPPFLAGS', 'CXXFLAGS', 'LDFLAGS', 'LDLIBS'):
                if var not in genv:
                    benv[var] = '-DVF_BUILD_TIME_%s_LEAK' % var
            for t in targets:
                extra_args = ['-k'] if backend == 'make' else ['-k', '0']
                rc, o = proj.build(bld, backend, t, env=benv, extra=extra_args)
                out.build.append((t, rc, o[-1200:]))
            out.records = proj.read_log(log)
        return out, exp
    finally:
        if not keep:
            core.rmtree(root)


_templates = {}


def templates(backend):
    """argv templates of a compile / link / ar step with no options at all."""
    if backend in _templates:
        return _templates[backend]
    root = core.mkscratch('argtpl')
    try:
        src = os.path.join(root, 'src')
        bld = os.path.join(root, 'bld')
        proj.write_tree(src, {
            'build.bfg': "shared_obj = object_file('objS', file='s.c')\n"
                         "executable('exS', files=[shared_obj])\n"
                         "static_library('libS', files=[object_file('obj0', file='s.c')])\n",
            's.c': 'int main(void){return 0;}\n'})
        log = os.path.join(root, 'log')
        env = core.base_env(proj.stub_toolchain_env(log))
        rc, o = proj.configure(src, bld, backend, env=env)
        if rc != 0:
            raise RuntimeError('template configure failed: ' + o[-500:])
        rc, o = proj.build(bld, backend, [], env=env)
        if rc != 0:
            raise RuntimeError('template build failed: ' + o[-500:])
        t = {}
        for r in proj.read_log(log):
            a = r['argv']
            base = os.path.basename(r['name'])
            if base == 'vcc' and '-c' in a:
                if 'obj0.o' not in a:      # (the archive's own member)
                    t['compile'] = a
            elif base == 'vcc':
                t['link'] = a
            elif base == 'var':
                t['ar'] = a
        if set(t) != {'compile', 'link', 'ar'}:
            raise RuntimeError('template incomplete: %r' % t)
        t = {k: [norm_names(x, root) for x in v] for k, v in t.items()}
        _templates[backend] = t
        return t
    finally:
        core.rmtree(root)


def norm_names(arg, root):
    arg = arg.replace(root, '@ROOT@')
    arg = re.sub(r'(?<![A-Za-z0-9])obj(\d+|S)(?![0-9])', 'obj@', arg)
    arg = re.sub(r'(?<![A-Za-z0-9])ex(\d+|S)(?![0-9])', 'ex@', arg)
    arg = re.sub(r'lib(lib\d+|libS)\.a', 'lib@.a', arg)
    return arg


def is_interleaving(argv, template, opts):
    """Is argv an order-preserving merge of template and opts?"""
    n, m = len(template), len(opts)
    if len(argv) != n + m:
        return False
    reach = {(0, 0)}
    for k, a in enumerate(argv):
        nxt = set()
        for i, j in reach:
            if i < n and template[i] == a:
                nxt.add((i + 1, j))
            if j < m and opts[j] == a:
                nxt.add((i, j + 1))
        reach = nxt
        if not reach:
            return False
    return (n, m) in reach


def judge(backend, slots, script_slots, out, exp, root_hint=None):
    """-> {slot id: None | (what, observed)}; None = held."""
    verdict = {}
    recs = out.records
    by_mark = {}
    by_out = {}
    for r in recs:
        for a in r['argv'][1:3]:
            if a.startswith('--slot='):
                by_mark.setdefault(a, []).append(r)
        for o in proj.step_outputs(r):
            by_out.setdefault(os.path.basename(o), []).append(r)
    # (the archiver's options come before the archive's name: find its run by that name)
    by_out['liblibS.a'] = [r for r in recs if os.path.basename(r['name']) == 'var' and
                           'liblibS.a' in r['argv'][1:]]
    tpl = None

    def need_tpl():
        nonlocal tpl
        if tpl is None:
            tpl = templates(backend)
        return tpl

    def colour_free(argv):
        # documented Ninja-only additions
        return [a for a in argv if a not in ('-fdiagnostics-color',
                                             '-fcolor-diagnostics')]

    def check_step(kind, rec, opts):
        t = need_tpl()[kind]
        cwd_root = os.path.dirname(rec['cwd'])
        opts = [o.replace('@SRC@', os.path.join(cwd_root, 'src')) for o in opts]
        raw = colour_free(rec['argv'])
        # the template is normalised (names, root); expected options are compared
        # verbatim, so normalise argv element-wise only where it is not an option
        tn = colour_free(t)
        cand = [norm_names(a, cwd_root) for a in raw]
        merged = [c if c in tn else a for a, c in zip(raw, cand)]
        if is_interleaving(merged, tn, opts):
            return None
        present = all(o in raw for o in opts)
        return ('extra-or-reordered-arguments' if present
                else 'option-missing-or-altered', raw)

    script_opts_c = []
    script_opts_l = []
    script_opts_a = []
    for sl in script_slots:
        e = exp[sl['id']]
        {'script-compile': script_opts_c, 'script-link': script_opts_l,
         'script-ar': script_opts_a}[e['kind']].extend(e['opts'])

    for sl in slots:
        i = sl['id']
        e = exp[i]
        mark = '--slot=%d' % i
        k = e['kind']
        if k in ('argv', 'argv-prefix'):
            rs = by_mark.get(mark, [])
            if len(rs) != 1:
                verdict[i] = ('not-started' if not rs else 'started-%d-times' % len(rs),
                              [r['argv'] for r in rs])
                continue
            r = rs[0]
            want = e['argv']
            got = r['argv']
            got0 = [os.path.basename(got[0])] + got[1:]
            if k == 'argv-prefix':
                got0 = got0[:len(want)]
            if got0 != want:
                verdict[i] = ('argv-differs', got)
                continue
            bad = None
            for name, val in e.get('env', {}).items():
                if r['env'].get(name) != val:
                    bad = ('env-differs', {name: r['env'].get(name)})
            if 'VF_E' in r['env'] and 'VF_E' not in e.get('env', {}):
                # the script gave this step no environment=: the variable can only be another
                # step's (steps sharing one shell, an export that outlives its command)
                bad = ('env-leaked-from-another-step', {'VF_E': r['env']['VF_E']})
            for m2, want2 in e.get('more', {}).items():
                r2 = by_mark.get(m2, [])
                if len(r2) != 1 or [os.path.basename(r2[0]['argv'][0])] + r2[0]['argv'][1:] != want2:
                    bad = ('argv-differs', [x['argv'] for x in r2])
            for m2, envs in e.get('more_env', {}).items():
                for r2 in by_mark.get(m2, []):
                    for name, val in envs.items():
                        if r2['env'].get(name) != val:
                            bad = ('env-differs-in-later-process', {name: r2['env'].get(name)})
            verdict[i] = bad
        elif k == 'jbos':
            rs = by_mark.get(mark, [])
            if len(rs) != 1:
                verdict[i] = ('not-started', [r['argv'] for r in rs])
                continue
            a = rs[0]['argv']
            s = e['s']
            ok = (len(a) >= 4 and a[2].startswith(s) and a[3].endswith(s) and
                  os.path.normpath(os.path.join(rs[0]['cwd'], a[2][len(s):])) ==
                  os.path.normpath(os.path.join(rs[0]['cwd'], e['out'])) and
                  os.path.normpath(os.path.join(rs[0]['cwd'], a[3][:len(a[3]) - len(s)]
                                                if s else a[3])) ==
                  os.path.normpath(os.path.join(rs[0]['cwd'], e['out'])))
            verdict[i] = None if ok else ('argv-differs', a)
        elif k == 'copy':
            rs = [r for r in recs if os.path.basename(r['name']) == e['tool'] and
                  os.path.basename(r['argv'][-1]) == e['out']]
            if len(rs) != 1:
                verdict[i] = ('not-started' if not rs else 'started-%d-times' % len(rs),
                              [r['argv'] for r in rs])
                continue
            r = rs[0]
            a = r['argv']
            srcpath = os.path.join(os.path.dirname(r['cwd']), 'src', e['src'])
            got = os.path.normpath(os.path.join(r['cwd'], a[-2])) if len(a) >= 3 else None
            ok = (len(a) == 4 and got == os.path.normpath(srcpath))
            verdict[i] = None if ok else ('argv-differs', a)
        elif k == 'copy-gen':
            rs = [r for r in recs if os.path.basename(r['name']) == e['tool'] and
                  os.path.basename(r['argv'][-1]) == e['out']]
            if len(rs) != 1:
                verdict[i] = ('not-started' if not rs else 'started-%d-times' % len(rs),
                              [r['argv'] for r in rs])
                continue
            r = rs[0]
            a = r['argv']
            want = os.path.normpath(os.path.join(r['cwd'], e['gen']))
            got = os.path.normpath(os.path.join(r['cwd'], e['linkdir'], a[-2])) \
                if len(a) >= 3 else None
            ok = (len(a) == 4 and got == want and
                  os.path.normpath(os.path.join(r['cwd'], a[-1])) ==
                  os.path.normpath(os.path.join(r['cwd'], e['linkdir'], e['out'])))
            verdict[i] = None if ok else ('argv-differs', a)
        elif k in ('compile', 'link', 'ar'):
            rs = by_out.get(e['out'], [])
            if len(rs) != 1:
                verdict[i] = ('not-started' if not rs else 'started-%d-times' % len(rs),
                              [r['argv'] for r in rs])
                continue
            sopts = script_opts_c if k == 'compile' else script_opts_l if k == 'link' else []
            verdict[i] = check_step(k, rs[0], sopts + e['opts'])
            if verdict[i] is None and 'VF_E' in rs[0]['env']:
                verdict[i] = ('env-leaked-from-another-step', {'VF_E': rs[0]['env']['VF_E']})
    for sl in script_slots:
        i = sl['id']
        e = exp[i]
        kind = {'script-compile': 'compile', 'script-link': 'link', 'script-ar': 'ar'}[e['kind']]
        outs = {'compile': 'objS.o', 'link': 'exS', 'ar': 'liblibS.a'}
        allo = {'compile': script_opts_c, 'link': script_opts_l, 'ar': script_opts_a}
        rs = by_out.get(outs[kind], [])
        if len(rs) != 1:
            verdict[i] = ('not-started' if not rs else 'started-%d-times' % len(rs),
                          [r['argv'] for r in rs])
            continue
        v = check_step(kind, rs[0], allo[kind])
        if v is None and kind != 'compile':
            # ... and only the steps of that link mode: the other mode's step of the same
            # project runs with its own options and nothing of this one's
            other = 'ar' if kind == 'link' else 'link'
            ro = by_out.get(outs[other], [])
            if len(ro) == 1:
                vo = check_step(other, ro[0], allo[other])
                if vo is not None and vo[0] == 'extra-or-reordered-arguments' and \
                   any(o in ro[0]['argv'] for o in e['opts'] if o not in allo[other]):
                    v = ('option-reached-a-step-of-the-other-link-mode', vo[1])
        verdict[i] = v
    return verdict


# ---------------------------------------------------------------- case runner

def probe_single(backend, ctx, s, script=False, style='single'):
    sl = {'id': 1, 'ctx': ctx, 's': s, 'style': style}
    if script:
        out, exp = run_script(backend, [], [sl])
        v = judge(backend, [], [sl], out, exp)
    else:
        out, exp = run_script(backend, [sl], [])
        v = judge(backend, [sl], [], out, exp)
    return v.get(1), out


_probe_cache = {}


def _probe_cached(backend, ctx, t, script, style='single'):
    key = (backend, ctx, t, script, style)
    if key not in _probe_cache:
        v, _ = probe_single(backend, ctx, t, script, style)
        _probe_cache[key] = v is not None
    return _probe_cache[key]


def culprits(backend, ctx, s, script=False, style='single'):
    """Which single characters (or, failing that, adjacent pairs) of s
    reproduce a failure in this context?"""
    found = []
    specials = []
    for ch in s:
        if not re.match(r'[A-Za-z0-9_./]', ch) and ch not in specials:
            specials.append(ch)
    for ch in specials[:8]:
        for shape, label in ((('x', 'x'), ''), (('', 'x'), '@lead'), (('x', ''), '@trail'),
                             (('', ''), '@alone')):
            t = shape[0] + ch + shape[1]
            if not admissible(ctx, t):
                continue
            # a position-dependent culprit only counts where s has it there
            if (label == '@lead' and not s.startswith(ch)) or \
               (label == '@trail' and not s.endswith(ch)) or \
               (label == '@alone' and s != ch):
                continue
            if _probe_cached(backend, ctx, t, script, style):
                found.append(ch + label)
                break
    if not found:
        seen = []
        for a, b in zip(s, s[1:]):
            pair = a + b
            if pair in seen or re.match(r'[A-Za-z0-9_./]{2}', pair):
                continue
            seen.append(pair)
            t = 'x' + pair + 'x'
            if admissible(ctx, t) and _probe_cached(backend, ctx, t, script, style):
                found.append('seq:' + pair)
            if len(seen) >= 10:
                break
    return found


def charname(c):
    return c if c.isprintable() and c != ' ' else 'U+%04X' % ord(c[0])


def run_case(backend, case):
    res = CaseResult()
    slots = case.get('slots', [])
    sslots = case.get('script_slots', [])
    res.evaluations = len(slots) + len(sslots)
    out, exp = run_script(backend, slots, sslots)
    suspects = []
    if out.configure_rc != 0:
        suspects = [(sl, False) for sl in slots] + [(sl, True) for sl in sslots]
        res.ev('scripts:configure-failed')
        batch_verdict = {}
    else:
        batch_verdict = judge(backend, slots, sslots, out, exp)
        for sl in slots:
            if batch_verdict.get(sl['id']) is not None:
                suspects.append((sl, False))
        for sl in sslots:
            if batch_verdict.get(sl['id']) is not None:
                suspects.append((sl, True))
    res.ev('scripts:run')
    for sl in slots + sslots:
        res.key([backend, sl['ctx'], sl['s']], nontrivial(sl['s']))
        res.classes.add(sl['ctx'])
    held = len(slots) + len(sslots) - len(suspects)
    res.ev('slots:held-in-batch', held)
    for sl in slots + sslots:
        if not any(sl is s2 for s2, _ in suspects):
            res.ev('ctx:' + sl['ctx'])
    # isolate suspects: each in its own script
    isolated_limit = 40
    if len(suspects) > isolated_limit and out.configure_rc != 0 and len(slots) + len(sslots) > 1:
        # bisect instead of isolating everything
        mid = len(slots) // 2
        for part in ({'slots': slots[:mid], 'script_slots': []},
                     {'slots': slots[mid:], 'script_slots': []},
                     {'slots': [], 'script_slots': sslots}):
            if part['slots'] or part['script_slots']:
                sub = run_case(backend, part)
                for k, v in sub.events.items():
                    if k.startswith('ctx:') or k.startswith('slots:'):
                        res.ev(k, v)
                res.violations.extend(sub.violations)
                if sub.inconclusive:
                    res.inconclusive = sub.inconclusive
        res.events['slots:held-in-batch'] = res.events.get('slots:held-in-batch', 0)
        return res
    failed_alone = 0
    held_alone = []
    for sl, is_script in suspects:
        v, o1 = probe_single(backend, sl['ctx'], sl['s'], is_script, sl.get('style', 'single'))
        res.ev('slots:isolated-rerun')
        if v is None:
            # held when alone: the batch result was collateral of another slot
            res.ev('slots:held-when-isolated')
            res.ev('ctx:' + sl['ctx'])
            held_alone.append((sl, is_script))
            continue
        failed_alone += 1
        what, observed = v
        if o1.configure_rc != 0:
            what = 'configure-failed'
            observed = o1.configure_out[-600:]
        elif what == 'not-started':
            observed = {'build': [(t, rc, tail[-500:]) for t, rc, tail in o1.build]}
        cul = culprits(backend, sl['ctx'], sl['s'], is_script, sl.get('style', 'single'))
        if cul and cul[0].startswith('seq:'):
            trig = 'seq:' + ','.join(sorted(''.join(charname(ch) for ch in c[4:]) for c in cul))
        elif cul:
            trig = 'chars:' + ''.join(sorted(charname(c[0]) + c[1:] for c in cul))
        else:
            trig = 'combination'
        res.violate((backend, sl['ctx'], trig),
                    {'backend': backend, 'context': sl['ctx'], 'arg': sl['s'],
                     'what': what, 'observed': observed, 'culprits': cul,
                     '__case__': {'backend': backend,
                                  'slots': [] if is_script else [dict(sl, id=1)],
                                  'script_slots': [dict(sl, id=1)] if is_script else []}})
    if held_alone and not failed_alone and out.configure_rc == 0:
        # slots failed in the batch, none of them fails alone, and no slot that fails alone
        # explains it: the failure needs a COMBINATION of steps in one script.  Reduce the
        # first such slot's partners to a single one and report the pair.
        for sl, is_script in held_alone[:2]:
            others = [x for x in slots if x is not sl] if not is_script else []
            if is_script or not others:
                continue

            def fails_with(part):
                # keep the script order of the batch: which step comes first may matter
                sub = [x for x in slots if x is sl or any(x is y for y in part)]
                o2, e2 = run_script(backend, sub, [])
                if o2.configure_rc != 0:
                    return False
                return judge(backend, sub, [], o2, e2).get(sl['id']) is not None
            part = others
            res.ev('slots:combination-reduction')
            if not fails_with(part):
                continue          # not reproducible without the script slots: leave it
            while len(part) > 1:
                half = part[:len(part) // 2]
                rest = part[len(part) // 2:]
                if fails_with(half):
                    part = half
                elif fails_with(rest):
                    part = rest
                else:
                    break
            res.violate((backend, sl['ctx'], 'only-together-with:' +
                         '+'.join(sorted({x['ctx'] for x in part}))[:80]),
                        {'backend': backend, 'context': sl['ctx'], 'arg': sl['s'],
                         'what': 'fails-only-in-combination',
                         'observed': batch_verdict.get(sl['id']),
                         'partners': [[x['ctx'], x['s']] for x in part[:6]],
                         '__case__': {'backend': backend,
                                      'slots': [dict(x) for x in slots
                                                if x is sl or any(x is y for y in part[:6])],
                                      'script_slots': []}})
    if slots or sslots:
        sl = (slots + sslots)[len(slots + sslots) // 2]
        e = exp.get(sl['id'], {})
        res.sample = {'backend': backend, 'context': sl['ctx'], 'arg': sl['s'],
                      'expected': {k: v for k, v in e.items()}}
    return res


# ---------------------------------------------------------------- case generation

def gen_cases(backend, tier, seed, contexts=CONTEXTS, script_contexts=SCRIPT_CONTEXTS):
    rng = core.rng_for(seed, 'argfid', backend)
    strings_a = []
    shapes = (('', ''), ('x', 'x')) if tier == 'quick' else \
        (('', ''), ('x', 'x'), ('x', ''), ('', 'x'), ('dup', ''))
    chars = ASCII + UNICODE
    for c in chars:
        for pre, post in shapes:
            strings_a.append(c + c if pre == 'dup' else pre + c + post)
    strings_a += CURATED
    pairs = []
    if tier == 'thorough':
        for a in LOADED:
            for b in LOADED:
                pairs.append(a + 'x' + b if rng.random() < 0.5 else a + b)
    else:
        for _ in range(150):
            pairs.append(rng.choice(LOADED) + rng.choice(LOADED))
    nrand = 300 if tier == 'quick' else 1500
    alphabet = LOADED * 3 + list('abcXYZ019') + UNICODE
    rand = []
    for _ in range(nrand):
        n = rng.randint(0, 40) if rng.random() < 0.3 else rng.randint(1, 8)
        rand.append(''.join(rng.choice(alphabet) for _ in range(n)))

    sid = 0
    slots = []
    for ctx in contexts:
        if tier == 'quick':
            # every single-character probe in half of the contexts (seeded), the
            # curated list everywhere
            pool = (rng.sample(strings_a[:-len(CURATED)], (len(strings_a) - len(CURATED)) // 2)
                    + CURATED + rng.sample(pairs, 25) + rng.sample(rand, 40))
        else:
            pool = strings_a + pairs + rand
        if ctx in ('cmd_word', 'test_word_env', 'step_arg', 'test_arg', 'cmd_arg'):
            # position-sensitive: a leading modifier-like character followed by
            # each special character (the first word of a command line goes
            # through extra quoting paths in both back ends)
            leads = '-+@' if ctx in ('cmd_word', 'test_word_env') else '-'
            pool = pool + [l + c + 'x' for l in leads for c in ASCII
                           if not c.isalnum()] + [l + t for l in leads
                                                  for t in ('$x', '${x}', '$$', '$(x)', "a'b",
                                                            'a b', '$ x')]
        seen = set()
        for s in pool:
            if s in seen or not admissible(ctx, s):
                continue
            seen.add(s)
            sid += 1
            slots.append({'id': sid, 'ctx': ctx, 's': s,
                          'style': rng.choice(['single', 'double', 'bare'])})
    rng.shuffle(slots)
    per = 120
    for i in range(0, len(slots), per):
        yield {'backend': backend, 'slots': slots[i:i + per], 'script_slots': []}
    # script-level slots: few per script, each script its own configure
    sslots = []
    for ctx in script_contexts:
        pool = (CURATED + [c for c in ASCII] + ['x' + c + 'x' for c in ASCII] +
                (rng.sample(pairs, 30) + rng.sample(rand, 30) if tier == 'quick'
                 else pairs[::3] + rand[::3]))
        if tier == 'quick':
            pool = rng.sample(pool, 30)
        seen = set()
        for s in pool:
            if s in seen or not admissible(ctx, s):
                continue
            seen.add(s)
            sid += 1
            sslots.append({'id': sid, 'ctx': ctx, 's': s,
                           'style': rng.choice(['single', 'double', 'bare'])})
    rng.shuffle(sslots)
    # at most one slot of each context per script (they share variables)
    pending = list(sslots)
    while pending:
        chosen = []
        used = set()
        rest = []
        for sl in pending:
            fam = sl['ctx']
            if fam in used or len(chosen) >= 4:
                rest.append(sl)
            else:
                used.add(fam)
                chosen.append(sl)
        pending = rest
        yield {'backend': backend, 'slots': [], 'script_slots': chosen}
