"""dag: random build-graph specs, their rendering as build.bfg and their MODEL.

A spec is plain data (JSON).  `render(spec)` gives the source tree,
`Model(spec)` answers the oracle's questions (which steps exist, what each
consumes and produces, default set, downstream/upstream closures) without ever
importing bfg9000.  Refs are ['file', path] (a source-tree file) or
['node', id, k] (k-th output of an earlier node).
"""
import os

from .. import core

STUB_C = 'int main(void){return 0;}\n'


# --------------------------------------------------------------------------
# generation

def gen_spec(rng, size=None, features=None):
    """features: set of optional feature names to allow."""
    feats = features if features is not None else {
        'hdrs', 'steps', 'multi', 'gensrc', 'copy', 'alias', 'cmd', 'test',
        'extra', 'default', 'install', 'always', 'subdirs', 'shared', 'implicit', 'pch', 'prelib',
        'versioned', 'cmds', 'filelists', 'duallib', 'submodule'}
    n = size or rng.randint(4, 22)
    files = {}
    nodes = []
    nsrc = rng.randint(2, 6)
    srcs = []
    for i in range(nsrc):
        d = rng.choice(['', '', 'sd/', 'sd/deep/']) if 'subdirs' in feats else ''
        p = '%ss%d.c' % (d, i)
        files[p] = STUB_C
        srcs.append(p)
    hdrs = []
    if 'hdrs' in feats:
        for i in range(rng.randint(0, 3)):
            p = '%sh%d.h' % (rng.choice(['inc/', 'inc/', '']), i)
            files[p] = '#define H%d %d\n' % (i, i)
            hdrs.append(p)
    data = []
    for i in range(rng.randint(1, 3)):
        p = 'data/d%d.txt' % i
        files[p] = 'data %d\n' % i
        data.append(p)

    prelibs = []
    if 'prelib' in feats:
        for i in range(rng.randint(0, 2)):
            p = 'vendor/libpre%d.a' % i
            files[p] = '!<arch>\n'
            prelibs.append(p)

    counter = [0]

    def nid():
        counter[0] += 1
        return counter[0]

    if 'submodule' in feats and rng.random() < 0.4:
        # a few targets declared by a submodule script (paths there are relative to its own
        # directory, outputs land below the matching build sub-directory); the top-level
        # script gets them back through export() and uses them like its own
        nodes.extend(gen_sub(rng, nid, files))

    def outputs_of(kinds=None):
        res = []
        for nd in nodes:
            if kinds and nd['kind'] not in kinds:
                continue
            for k in range(len(out_names(nd))):
                res.append(['node', nd['id'], k])
        return res

    def pick_extra():
        if 'extra' not in feats or rng.random() > 0.25:
            return []
        cands = [['file', p] for p in data] + outputs_of({'step', 'copy'})
        return [rng.choice(cands)] if cands else []

    def node_of(ref):
        return next(nd for nd in nodes if nd['id'] == ref[1])

    kinds = ['obj', 'obj', 'exe', 'exe', 'slib', 'dlib', 'step', 'step', 'copy', 'alias',
             'cmd', 'test', 'pch', 'objs', 'copies', 'lib']
    plain_objs_used = [False]
    for _ in range(n):
        kind = rng.choice(kinds)
        i = nid()
        sub = rng.choice(['', '', '', 'od/', 'od/x/']) if 'subdirs' in feats else ''
        if kind == 'obj':
            gens = [r for r in outputs_of({'step'})
                    if out_names(node_of(r))[r[2]].endswith('.c')] if 'gensrc' in feats else []
            if gens and rng.random() < 0.4:
                src = rng.choice(gens)
            else:
                src = ['file', rng.choice(srcs)]
            nd = {'id': i, 'kind': 'obj', 'name': '%so%d' % (sub, i), 'src': src,
                  'hdrs': rng.sample(hdrs, rng.randint(0, min(2, len(hdrs)))),
                  'extra': pick_extra()}
            ghdr = [r for r in outputs_of({'step'})
                    if out_names(node_of(r))[r[2]].endswith('.h')]
            nd['ghdrs'] = [rng.choice(ghdr)] if ghdr and 'gensrc' in feats and \
                rng.random() < 0.3 else []
            pchs = [nd2['id'] for nd2 in nodes if nd2['kind'] == 'pch']
            nd['pch'] = rng.choice(pchs) if pchs and rng.random() < 0.4 else None
        elif kind in ('exe', 'slib', 'dlib'):
            if kind == 'dlib' and 'shared' not in feats:
                kind = 'slib'
            objs = [nd2['id'] for nd2 in nodes if nd2['kind'] == 'obj']
            use_objs = rng.sample(objs, rng.randint(0, min(3, len(objs))))
            # single members, or the whole list, of an object_files() call
            members = []
            for nd2 in nodes:
                if nd2['kind'] == 'objs' and rng.random() < 0.5:
                    if rng.random() < 0.4:
                        members.append(['list', nd2['id']])
                    else:
                        members.append(['node', nd2['id'], rng.randrange(len(nd2['srcs']))])
            use_srcs = []
            if 'implicit' in feats and (not use_objs or rng.random() < 0.5):
                use_srcs = rng.sample(srcs, rng.randint(1, min(2, len(srcs))))
            if not use_objs and not use_srcs and not members:
                use_srcs = [rng.choice(srcs)]
            pch_str = None
            if use_srcs:
                sub = ''     # implicit object paths of nested outputs are C05's business
                # (a string pch with several sources is refused at configure time: one
                # header step per source - C16's known finding - so exactly one source)
                if 'pch' in feats and len(use_srcs) == 1 and rng.random() < 0.35:
                    pch_str = 'pre%d.h' % i
                    files[pch_str] = '#define PRE%d\n' % i
            libs = [nd2['id'] for nd2 in nodes if nd2['kind'] in ('slib', 'dlib') or
                    (nd2['kind'] == 'lib' and kind != 'slib')]
            nd = {'id': i, 'kind': kind,
                  'name': '%s%s%d' % (sub, {'exe': 'e', 'slib': 'l', 'dlib': 'l'}[kind], i),
                  'objs': use_objs, 'srcs': use_srcs, 'members': members,
                  'hdrs': rng.sample(hdrs, rng.randint(0, min(1, len(hdrs)))) if use_srcs else [],
                  'libs': rng.sample(libs, rng.randint(0, min(2, len(libs)))),
                  'extra': pick_extra(), 'pch_str': pch_str,
                  'prelibs': rng.sample(prelibs, rng.randint(0, len(prelibs)))
                  if prelibs and kind != 'slib' and rng.random() < 0.4 else []}
            if pch_str and not nd['hdrs'] and hdrs:
                nd['hdrs'] = [rng.choice(hdrs)]
            if kind == 'dlib' and 'versioned' in feats and rng.random() < 0.4:
                # libN.so -> libN.so.<so> -> libN.so.<version>: the public output is the
                # development symlink, the link step writes the real file
                so = rng.randint(0, 9)
                nd['version'] = ['%d.%d.%d' % (so, rng.randint(0, 9), rng.randint(0, 20)), str(so)]
        elif kind == 'step':
            if 'steps' not in feats:
                continue
            nout = rng.choice([1, 1, 2, 3]) if 'multi' in feats else 1
            exts = ['.c', '.h', '.txt', '.dat']
            outs = []
            # the outputs of one step may live in different directories of the build tree
            spread = nout > 1 and 'subdirs' in feats and rng.random() < 0.5
            for k in range(nout):
                ext = rng.choice(exts) if 'gensrc' in feats else rng.choice(['.txt', '.dat'])
                osub = rng.choice(['', 'od/', 'od/x/', 'gen/', 'inc/']) if spread else sub
                outs.append('%sg%d_%d%s' % (osub, i, k, ext))
            cands = [['file', p] for p in data + srcs] + outputs_of({'step', 'copy', 'obj'})
            nd = {'id': i, 'kind': 'step', 'outs': outs,
                  'files': rng.sample(cands, rng.randint(0, min(2, len(cands)))),
                  'cmd_refs': rng.sample(cands, rng.randint(0, min(2, len(cands)))),
                  'extra': pick_extra(),
                  'always': 'always' in feats and rng.random() < 0.12,
                  'env': rng.choice([None, None, 'v%d' % i, 'two words %d' % i, "q'%d$x" % i])}
        elif kind == 'lib':
            # library(): shared, static or both, as the configuration says (set_mode)
            if 'duallib' not in feats or 'shared' not in feats:
                continue
            nd = {'id': i, 'kind': 'lib', 'name': 'u%d' % i, 'objs': [], 'members': [],
                  'srcs': rng.sample(srcs, rng.randint(1, min(2, len(srcs)))),
                  'hdrs': rng.sample(hdrs, rng.randint(0, min(1, len(hdrs)))),
                  'libs': [], 'extra': [], 'pch_str': None, 'prelibs': [], 'mode': [True, False]}
        elif kind == 'objs':
            # object_files([...]): one compile step per source, named after the source
            if 'filelists' not in feats or len(srcs) < 2:
                continue
            d = None if not plain_objs_used[0] and rng.random() < 0.3 else 'ob%d' % i
            if d is None:
                plain_objs_used[0] = True
            nd = {'id': i, 'kind': 'objs', 'dir': d,
                  'srcs': rng.sample(srcs, rng.randint(2, min(3, len(srcs)))),
                  'hdrs': rng.sample(hdrs, rng.randint(0, min(1, len(hdrs)))),
                  'extra': []}
        elif kind == 'copies':
            # copy_files([...], directory=...): one copy step per file, source layout kept
            if 'filelists' not in feats or 'copy' not in feats or len(data) < 2:
                continue
            nd = {'id': i, 'kind': 'copies', 'dir': 'cp%d' % i,
                  'srcs': rng.sample(data, 2), 'mode': rng.choice(['copy', 'copy', 'symlink']),
                  'extra': []}
        elif kind == 'copy':
            if 'copy' not in feats:
                continue
            cands = [['file', p] for p in data] + outputs_of({'step', 'exe'})
            nd = {'id': i, 'kind': 'copy', 'name': '%sc%d.out' % (sub, i),
                  'src': rng.choice(cands), 'mode': rng.choice(['copy', 'copy', 'symlink',
                                                                'hardlink']),
                  'extra': pick_extra()}
            if nd['mode'] != 'copy':
                # a link shares its source's mtime, so it can never become newer
                # than an *additional* dependency: no mtime-based tool can model
                # that combination, whatever the generator writes
                nd['extra'] = []
        elif kind == 'alias':
            cands = [nd2['id'] for nd2 in nodes if nd2['kind'] not in ('test',)]
            if 'alias' not in feats or not cands:
                continue
            nd = {'id': i, 'kind': 'alias', 'name': 'al%d' % i,
                  'deps': rng.sample(cands, rng.randint(1, min(3, len(cands))))}
        elif kind == 'cmd':
            if 'cmd' not in feats:
                continue
            cands = [['file', p] for p in data] + outputs_of({'step', 'copy', 'exe', 'slib'})
            nd = {'id': i, 'kind': 'cmd', 'name': 'cm%d' % i,
                  'refs': rng.sample(cands, rng.randint(0, min(2, len(cands)))),
                  'files': rng.sample(cands, rng.randint(0, min(1, len(cands)))),
                  'extra': pick_extra(),
                  'env': rng.choice([None, 'c%d' % i, 'a b %d' % i])}
            if 'cmds' in feats and rng.random() < 0.5:
                # several commands in one step: shell state set by an earlier command (here
                # the working directory) must still hold for the later ones
                nd['chdir'] = 'wd%d' % i
                # the leading commands as plain shell strings or as argument lists: file
                # objects named in a LATER list-form line are dependencies either way
                nd['chdir_str'] = rng.random() < 0.5
                if rng.random() < 0.5:
                    # ... or the whole step as ONE shell line (a compound command): the step's
                    # environment must reach the program at its end, not just its first word
                    nd['oneline'] = True
                    nd['refs'] = []
                    nd['env'] = nd['env'] or 'one line %d' % i
        elif kind == 'pch':
            if 'pch' not in feats:
                continue
            files['pre%d.h' % i] = '#define PRE%d\n' % i
            ghdr = [r for r in outputs_of({'step'})
                    if out_names(node_of(r))[r[2]].endswith('.h')]
            nd = {'id': i, 'kind': 'pch', 'name': '%spp%d' % (sub, i), 'hdr': 'pre%d.h' % i,
                  'hdrs': rng.sample(hdrs, rng.randint(0, min(2, len(hdrs)))),
                  'ghdrs': [rng.choice(ghdr)] if ghdr and rng.random() < 0.5 else []}
        elif kind == 'test':
            exes = [nd2['id'] for nd2 in nodes if nd2['kind'] == 'exe']
            if 'test' not in feats:
                continue
            if exes and rng.random() < 0.6:
                nd = {'id': i, 'kind': 'test', 'exe': rng.choice(exes), 'refs': []}
            else:
                cands = outputs_of({'step', 'copy'})
                nd = {'id': i, 'kind': 'test', 'exe': None,
                      'refs': rng.sample(cands, rng.randint(0, min(2, len(cands))))}
        nodes.append(nd)

    spec = {'files': files, 'nodes': nodes, 'default': None, 'install': None,
            'test_deps': []}
    buildable = [nd['id'] for nd in nodes if nd['kind'] in ('exe', 'slib', 'dlib', 'step',
                                                            'copy', 'obj', 'pch', 'objs',
                                                            'copies')]
    if 'default' in feats and buildable and rng.random() < 0.3:
        spec['default'] = rng.sample(buildable, rng.randint(1, min(3, len(buildable))))
    inst = [nd['id'] for nd in nodes if nd['kind'] in ('exe', 'slib', 'dlib')]
    buildable += [nd['id'] for nd in nodes if nd['kind'] == 'lib']
    if 'install' in feats and inst and rng.random() < 0.2:
        spec['install'] = rng.sample(inst, rng.randint(1, min(2, len(inst))))
    tdeps = [nd['id'] for nd in nodes if nd['kind'] in ('step', 'copy')]
    if 'test' in feats and tdeps and any(nd['kind'] == 'test' for nd in nodes) and \
       rng.random() < 0.3:
        spec['test_deps'] = [rng.choice(tdeps)]
    return spec


def gen_sub(rng, nid, files, sm='sm'):
    nodes = []
    srcs, dat = [], []
    for i in range(rng.randint(2, 3)):
        p = '%s/t%d.c' % (sm, i)
        files[p] = STUB_C
        srcs.append(p)
    for i in range(2):
        p = '%s/sdata/e%d.txt' % (sm, i)
        files[p] = 'sub data %d\n' % i
        dat.append(p)
    for _ in range(rng.randint(2, 5)):
        kind = rng.choice(['obj', 'exe', 'slib', 'dlib', 'copy', 'objs', 'copies'])
        i = nid()
        if kind == 'obj':
            nd = {'id': i, 'kind': 'obj', 'name': '%s/%so%d' % (sm, rng.choice(['', 'q/']), i),
                  'src': ['file', rng.choice(srcs)], 'hdrs': [], 'extra': [], 'ghdrs': [],
                  'pch': None}
        elif kind in ('exe', 'slib', 'dlib'):
            objs = [n['id'] for n in nodes if n['kind'] == 'obj']
            use_objs = rng.sample(objs, rng.randint(0, min(2, len(objs))))
            use_srcs = rng.sample(srcs, 1) if not use_objs or rng.random() < 0.5 else []
            libs = [n['id'] for n in nodes if n['kind'] in ('slib', 'dlib')]
            nd = {'id': i, 'kind': kind,
                  'name': '%s/%s%d' % (sm, {'exe': 'e', 'slib': 'l', 'dlib': 'l'}[kind], i),
                  'objs': use_objs, 'srcs': use_srcs, 'members': [], 'hdrs': [],
                  'libs': rng.sample(libs, rng.randint(0, min(1, len(libs)))), 'extra': [],
                  'pch_str': None, 'prelibs': []}
        elif kind == 'copy':
            nd = {'id': i, 'kind': 'copy', 'name': '%s/c%d.out' % (sm, i),
                  'src': ['file', rng.choice(dat)], 'mode': rng.choice(['copy', 'symlink']),
                  'extra': []}
        elif kind == 'objs':
            nd = {'id': i, 'kind': 'objs', 'dir': 'ob%d' % i, 'srcs': rng.sample(srcs, 2),
                  'hdrs': [], 'extra': []}
        else:
            nd = {'id': i, 'kind': 'copies', 'dir': 'cp%d' % i, 'srcs': list(dat),
                  'mode': 'copy', 'extra': []}
        nd['sm'] = sm
        nodes.append(nd)
    return nodes


def _in_sub(nd, path):
    """`path` as the submodule's own script writes it."""
    sm = nd.get('sm')
    return path[len(sm) + 1:] if sm and path.startswith(sm + '/') else path


def out_names(nd):
    """Output file names (relative to the build dir) a node produces."""
    k = nd['kind']
    if k == 'obj':
        return [nd['name'] + '.o']
    if k == 'exe':
        return [nd['name']]
    if k in ('slib', 'dlib'):
        d, b = os.path.split(nd['name'])
        return [os.path.join(d, 'lib' + b + ('.a' if k == 'slib' else '.so'))]
    if k == 'lib':
        # the file its users link: the shared object when there is one
        return ['lib' + nd['name'] + ('.so' if nd['mode'][0] else '.a')]
    if k == 'step':
        return list(nd['outs'])
    if k == 'copy':
        return [nd['name']]
    if k == 'pch':
        return [nd['name'] + '.gch']
    if k == 'objs':
        pre = (nd['sm'] + '/' if nd.get('sm') else '') + (nd['dir'] + '/' if nd['dir'] else '')
        return [pre + os.path.splitext(_in_sub(nd, s))[0] + '.o' for s in nd['srcs']]
    if k == 'copies':
        pre = (nd['sm'] + '/' if nd.get('sm') else '') + nd['dir'] + '/'
        return [pre + _in_sub(nd, s) for s in nd['srcs']]
    return []


def set_mode(spec, shared=True, static=False):
    """How the project is configured (--enable/--disable-shared/static): decides what a
    library() node is."""
    for nd in spec['nodes']:
        if nd['kind'] == 'lib':
            nd['mode'] = [bool(shared), bool(static)]


def mode_of_args(args):
    shared, static = True, False
    for a in args:
        if a == '--enable-static':
            static = True
        elif a == '--disable-static':
            static = False
        elif a == '--enable-shared':
            shared = True
        elif a == '--disable-shared':
            shared = False
    return shared, static


def versioned_names(nd):
    """(real file, soname symlink) of a versioned shared library, relative to the build dir."""
    pub = out_names(nd)[0]
    return pub + '.' + nd['version'][0], pub + '.' + nd['version'][1]


# --------------------------------------------------------------------------
# rendering

def _ref(ref):
    if ref[0] == 'file':
        ext = os.path.splitext(ref[1])[1]
        fn = {'.c': 'source_file', '.h': 'header_file'}.get(ext, 'generic_file')
        return '%s(%r)' % (fn, ref[1])
    return 'n%d_out[%d]' % (ref[1], ref[2])


def _as_written(nd):
    """The node with names and file paths as its own script spells them."""
    if not nd.get('sm'):
        return nd
    w = dict(nd)
    if 'name' in w:
        w['name'] = _in_sub(nd, w['name'])
    if 'src' in w and w['src'][0] == 'file':
        w['src'] = ['file', _in_sub(nd, w['src'][1])]
    if 'srcs' in w:
        w['srcs'] = [_in_sub(nd, x) for x in w['srcs']]
    return w


def render(spec, stub='vrec'):
    top = ['# generated by vf.gen.dag']
    subs = {}
    every = []
    for nd in spec['nodes']:
        i, k = nd['id'], nd['kind']
        nd = _as_written(nd)
        L = subs.setdefault(nd['sm'], ['# generated by vf.gen.dag (submodule)']) \
            if nd.get('sm') else top
        v = 'n%d' % i
        extra = ''
        if nd.get('extra'):
            extra = ', extra_deps=[%s]' % ', '.join(_ref(r) for r in nd['extra'])
        if k == 'obj':
            inc = [_ref(['file', h]) for h in nd['hdrs']] + [_ref(r) for r in nd.get('ghdrs', [])]
            incs = ', includes=[%s]' % ', '.join(inc) if inc else ''
            pch = ', pch=n%d' % nd['pch'] if nd.get('pch') else ''
            L.append('%s = object_file(%r, file=%s%s%s%s)' % (v, nd['name'], _ref(nd['src']),
                                                             incs, pch, extra))
        elif k == 'pch':
            inc = [_ref(['file', h]) for h in nd['hdrs']] + [_ref(r) for r in nd['ghdrs']]
            incs = ', includes=[%s]' % ', '.join(inc) if inc else ''
            L.append('%s = precompiled_header(%r, file=%s%s)' % (v, nd['name'],
                                                                _ref(['file', nd['hdr']]), incs))
        elif k in ('exe', 'slib', 'dlib', 'lib'):
            fn = {'exe': 'executable', 'slib': 'static_library', 'dlib': 'shared_library',
                  'lib': 'library'}[k]
            files = ['n%d' % o for o in nd['objs']] + [repr(s) for s in nd['srcs']]
            listed = [m for m in nd.get('members', []) if m[0] == 'list']
            files += ['n%d[%d]' % (m[1], m[2]) for m in nd.get('members', []) if m[0] == 'node']
            liblist = ['n%d' % l for l in nd['libs']] + \
                ['static_library(%r)' % p for p in nd.get('prelibs', [])]
            libs = ', libs=[%s]' % ', '.join(liblist) if liblist else ''
            inc = ', includes=[%s]' % ', '.join(_ref(['file', h]) for h in nd['hdrs']) \
                if nd.get('hdrs') else ''
            pch = ', pch=%r' % nd['pch_str'] if nd.get('pch_str') else ''
            if nd.get('version'):
                pch += ', version=%r, soversion=%r' % tuple(nd['version'])
            flist = '[%s]' % ', '.join(files)
            for m in listed:
                flist += ' + list(n%d)' % m[1]
            L.append('%s = %s(%r, files=%s%s%s%s%s)' % (v, fn, nd['name'], flist,
                                                       libs, inc, pch, extra))
        elif k == 'step':
            cmd = [repr(stub), repr('--id=%d' % i)] + [_ref(r) for r in nd['cmd_refs']] + \
                ["'--touch'", 'build_step.output', "'--end'"]
            files = ', files=[%s]' % ', '.join(_ref(r) for r in nd['files']) if nd['files'] else ''
            always = ', always_outdated=True' if nd['always'] else ''
            name = repr(nd['outs'][0]) if len(nd['outs']) == 1 else repr(nd['outs'])
            envs = ", environment={'VF_E': %r}" % nd['env'] if nd.get('env') else ''
            L.append('%s = build_step(%s, cmd=[%s]%s%s%s%s)' % (v, name, ', '.join(cmd), files,
                                                               always, envs, extra))
        elif k == 'objs':
            inc = ', includes=[%s]' % ', '.join(_ref(['file', h]) for h in nd['hdrs']) \
                if nd.get('hdrs') else ''
            d = ', directory=%r' % nd['dir'] if nd['dir'] else ''
            L.append('%s = object_files([%s]%s%s)' % (v, ', '.join(repr(x) for x in nd['srcs']),
                                                     d, inc))
        elif k == 'copies':
            L.append('%s = copy_files([%s], directory=%r, mode=%r)' % (
                v, ', '.join(_ref(['file', x]) for x in nd['srcs']), nd['dir'], nd['mode']))
        elif k == 'copy':
            L.append('%s = copy_file(%r, %s, mode=%r%s)' % (v, nd['name'], _ref(nd['src']),
                                                           nd['mode'], extra))
        elif k == 'alias':
            L.append('%s = alias(%r, %s)' % (v, nd['name'],
                                             ' + '.join('n%d_out' % d for d in nd['deps'])))
        elif k == 'cmd':
            cmd = [repr(stub), repr('--id=%d' % i)] + [_ref(r) for r in nd['refs']]
            files = ', files=[%s]' % ', '.join(_ref(r) for r in nd['files']) if nd['files'] else ''
            envs = ", environment={'VF_E': %r}" % nd['env'] if nd.get('env') else ''
            if nd.get('oneline'):
                L.append("%s = command(%r, cmd=%r%s%s%s)"
                         % (v, nd['name'], 'mkdir -p %s && cd %s && %s --id=%d'
                            % (nd['chdir'], nd['chdir'], stub, i), files, envs, extra))
            elif nd.get('chdir') and nd.get('chdir_str'):
                L.append("%s = command(%r, cmds=[%r, %r, [%s]]%s%s%s)"
                         % (v, nd['name'], 'mkdir -p ' + nd['chdir'], 'cd ' + nd['chdir'],
                            ', '.join(cmd), files, envs, extra))
            elif nd.get('chdir'):
                L.append("%s = command(%r, cmds=[['mkdir', '-p', %r], ['cd', %r], [%s]]%s%s%s)"
                         % (v, nd['name'], nd['chdir'], nd['chdir'], ', '.join(cmd), files, envs,
                            extra))
            else:
                L.append('%s = command(%r, cmd=[%s]%s%s%s)' % (v, nd['name'], ', '.join(cmd), files,
                                                              envs, extra))
        elif k == 'test':
            if nd['exe'] is not None:
                L.append('test(n%d)' % nd['exe'])
            else:
                L.append('test([%r, %r%s])' % (stub, '--id=%d' % i, ''.join(
                    ', ' + _ref(r) for r in nd['refs'])))
        if k in ('obj', 'exe', 'slib', 'dlib', 'copy', 'step', 'alias', 'cmd', 'pch', 'objs',
                 'copies', 'lib'):
            # uniform access to outputs
            multi = (k == 'step' and len(nd['outs']) > 1) or k in ('objs', 'copies')
            L.append('%s_out = %s' % (v, 'list(%s)' % v if multi else '[%s]' % v))
        if k not in ('test',):
            every.append(v + '_out')
    L = top
    # what the submodules declare comes back through export()
    head = []
    for sm, lines in subs.items():
        ids = [nd['id'] for nd in spec['nodes'] if nd.get('sm') == sm]
        lines.append('export(%s)' % ', '.join('n%d=n%d, n%d_out=n%d_out' % (i, i, i, i)
                                              for i in ids))
        head.append('%s_x = submodule(%r)' % (sm, sm))
        for i in ids:
            head.append("n%d = %s_x['n%d']" % (i, sm, i))
            head.append("n%d_out = %s_x['n%d_out']" % (i, sm, i))
    top[1:1] = head
    for d in spec.get('test_deps') or []:
        L.append('test_deps(*n%d_out)' % d)
    if spec.get('default'):
        L.append('default(%s)' % ', '.join('n%d_out' % d for d in spec['default']))
    if spec.get('install'):
        L.append('install(%s)' % ', '.join('n%d' % d for d in spec['install']))
    L.append('alias(%r, %s)' % ('everything', ' + '.join(every) if every else '[]'))
    files = dict(spec['files'])
    files['build.bfg'] = '\n'.join(L) + '\n'
    for sm, lines in subs.items():
        files[sm + '/build.bfg'] = '\n'.join(lines) + '\n'
    return files


# --------------------------------------------------------------------------
# the model

class Model:
    """Steps and files.  File ids: 'S:<path>' (source tree) and 'B:<path>'
    (build tree).  Step ids are strings."""

    def __init__(self, spec):
        self.spec = spec
        self.steps = {}        # sid -> {'in': set(fileids), 'out': [fileids], 'always': bool,
        #                                  'kind':..., 'node': id}
        self.node_steps = {}   # node id -> [sids] (all steps the node created)
        self.node_primary = {}  # node id -> sid of the step producing its outputs
        self.node_multi = {}    # node id -> [sids] for nodes made of several steps (file lists)
        self.producer = {}     # file id -> sid
        self.members = {}      # phony name -> set(node ids)
        self.tests = []
        byid = {nd['id']: nd for nd in spec['nodes']}
        self.byid = byid
        for nd in spec['nodes']:
            self._add(nd)
        self.given_to_test = {nd['exe'] for nd in spec['nodes']
                              if nd['kind'] == 'test' and nd['exe'] is not None}

    def fid(self, ref):
        if ref[0] == 'file':
            return 'S:' + ref[1]
        return 'B:' + out_names(self.byid[ref[1]])[ref[2]]

    def _step(self, sid, node, kind, ins, outs, always=False):
        self.steps[sid] = {'in': set(ins), 'out': list(outs), 'always': always,
                           'kind': kind, 'node': node}
        for o in outs:
            self.producer[o] = sid
        self.node_steps.setdefault(node, []).append(sid)

    def _add(self, nd):
        i, k = nd['id'], nd['kind']
        extra = [self.fid(r) for r in nd.get('extra', [])]
        if k == 'obj':
            ins = [self.fid(nd['src'])] + ['S:' + h for h in nd['hdrs']] + \
                [self.fid(r) for r in nd.get('ghdrs', [])] + extra
            if nd.get('pch'):
                ins.append('B:' + out_names(self.byid[nd['pch']])[0])
            self._step('obj%d' % i, i, 'compile', ins, ['B:' + nd['name'] + '.o'])
            self.node_primary[i] = 'obj%d' % i
        elif k == 'pch':
            ins = ['S:' + nd['hdr']] + ['S:' + h for h in nd['hdrs']] + \
                [self.fid(r) for r in nd['ghdrs']]
            self._step('pch%d' % i, i, 'pch', ins, ['B:' + nd['name'] + '.gch'])
            self.node_primary[i] = 'pch%d' % i
        elif k == 'objs':
            self.node_multi[i] = []
            for j, (src, o) in enumerate(zip(nd['srcs'], out_names(nd))):
                sid = 'objs%d/%d' % (i, j)
                self._step(sid, i, 'compile', ['S:' + src] + ['S:' + h for h in nd['hdrs']],
                           ['B:' + o])
                self.node_multi[i].append(sid)
        elif k == 'copies':
            self.node_multi[i] = []
            for j, (src, o) in enumerate(zip(nd['srcs'], out_names(nd))):
                sid = 'copies%d/%d' % (i, j)
                self._step(sid, i, 'copy', ['S:' + src], ['B:' + o])
                self.node_multi[i].append(sid)
        elif k in ('exe', 'slib', 'dlib', 'lib'):
            objs = ['B:' + out_names(self.byid[o])[0] for o in nd['objs']]
            for mm in nd.get('members', []):
                names = out_names(self.byid[mm[1]])
                objs += ['B:' + x for x in (names if mm[0] == 'list' else [names[mm[2]]])]
            gch = []
            if nd.get('pch_str'):
                gch = ['B:' + nd['pch_str'] + '.gch']
                self._step('%s%d/pch' % (k, i), i, 'pch',
                           ['S:' + nd['pch_str']] + ['S:' + h for h in nd.get('hdrs', [])], gch)
            for s in nd['srcs']:
                d, b = os.path.split(nd['name'])
                if k != 'exe':
                    b = 'lib' + b
                o = 'B:' + os.path.join(d, b + '.int', os.path.splitext(_in_sub(nd, s))[0] + '.o')
                self._step('%s%d/%s' % (k, i, s), i, 'compile',
                           ['S:' + s] + ['S:' + h for h in nd.get('hdrs', [])] + gch, [o])
                objs.append(o)
            libs = ['B:' + out_names(self.byid[l])[0] for l in nd['libs']] + \
                ['S:' + p for p in nd.get('prelibs', [])]
            if k == 'lib':
                # one set of objects; a link step, an archive step, or both
                self.node_multi[i] = []
                if nd['mode'][0]:
                    self._step('lib%d/shared' % i, i, 'link', objs + libs + extra,
                               ['B:lib' + nd['name'] + '.so'])
                    self.node_multi[i].append('lib%d/shared' % i)
                if nd['mode'][1]:
                    self._step('lib%d/static' % i, i, 'ar', objs + libs + extra,
                               ['B:lib' + nd['name'] + '.a'])
                    self.node_multi[i].append('lib%d/static' % i)
                return
            if nd.get('version'):
                real, soname = versioned_names(nd)
                self._step('dlib%d' % i, i, 'link', objs + libs + extra, ['B:' + real])
                self._step('dlib%d/soname' % i, i, 'symlink', ['B:' + real], ['B:' + soname])
                self._step('dlib%d/devlink' % i, i, 'symlink', ['B:' + soname],
                           ['B:' + out_names(nd)[0]])
                self.node_primary[i] = 'dlib%d/devlink' % i
                return
            self._step('%s%d' % (k, i), i, 'link' if k != 'slib' else 'ar',
                       objs + libs + extra, ['B:' + out_names(nd)[0]])
            self.node_primary[i] = '%s%d' % (k, i)
        elif k == 'step':
            ins = [self.fid(r) for r in nd['files']] + extra
            for r in nd['cmd_refs']:
                # Node objects on the command line are dependencies; for an
                # always-outdated step only *created* ones
                if r[0] == 'node' or not nd['always']:
                    ins.append(self.fid(r))
            self._step('step%d' % i, i, 'step', ins, ['B:' + o for o in nd['outs']],
                       always=nd['always'])
            self.node_primary[i] = 'step%d' % i
        elif k == 'copy':
            self._step('copy%d' % i, i, 'copy', [self.fid(nd['src'])] + extra,
                       ['B:' + nd['name']])
            self.node_primary[i] = 'copy%d' % i
        elif k == 'alias':
            self.members[nd['name']] = set(nd['deps'])
        elif k == 'cmd':
            ins = [self.fid(r) for r in nd['files']] + extra + \
                [self.fid(r) for r in nd['refs'] if r[0] == 'node']
            self._step('cmd%d' % i, i, 'cmd', ins, [], always=True)
            self.node_primary[i] = 'cmd%d' % i
        elif k == 'test':
            self.tests.append(nd)

    # ---- closures
    def upstream_steps(self, sids):
        """All steps that must run (from a clean tree) to run `sids`."""
        seen = set()
        stack = list(sids)
        while stack:
            s = stack.pop()
            if s in seen:
                continue
            seen.add(s)
            for f in self.steps[s]['in']:
                p = self.producer.get(f)
                if p:
                    stack.append(p)
        return seen

    def node_target_steps(self, node_ids):
        """Steps needed to build the given nodes (alias members expand)."""
        sids = set()
        stack = list(node_ids)
        seen = set()
        while stack:
            n = stack.pop()
            if n in seen:
                continue
            seen.add(n)
            nd = self.byid[n]
            if nd['kind'] == 'alias':
                stack.extend(nd['deps'])
            elif n in self.node_primary:
                sids.add(self.node_primary[n])
            elif n in self.node_multi:
                sids.update(self.node_multi[n])
        return self.upstream_steps(sids)

    def default_nodes(self):
        explicit = list(self.spec.get('default') or []) + list(self.spec.get('install') or [])
        if explicit:
            return explicit
        return [nd['id'] for nd in self.spec['nodes']
                if nd['kind'] in ('exe', 'slib', 'dlib', 'lib') and
                nd['id'] not in self.given_to_test]

    def default_steps(self):
        return self.node_target_steps(self.default_nodes())

    def everything_steps(self):
        return set(self.steps)

    def downstream(self, fid):
        """Steps that must re-run when file `fid` changes."""
        res = set()
        frontier = [fid]
        while frontier:
            f = frontier.pop()
            for sid, st in self.steps.items():
                if f in st['in'] and sid not in res:
                    res.add(sid)
                    frontier.extend(st['out'])
        return res

    def always_steps(self, within):
        """Steps that re-run on every build of `within` (set of sids): the
        always-outdated ones and everything downstream of their outputs."""
        res = set()
        for sid in within:
            if self.steps[sid]['always']:
                res.add(sid)
                for o in self.steps[sid]['out']:
                    res |= self.downstream(o)
        return res & set(within)

    def test_steps(self):
        """-> (steps needed for target `tests`, test run records expected)"""
        sids = set()
        for t in self.tests:
            if t['exe'] is not None:
                sids |= self.node_target_steps([t['exe']])
            for r in t['refs']:
                if r[0] == 'node':
                    sids |= self.node_target_steps([r[1]])
        for d in self.spec.get('test_deps') or []:
            sids |= self.node_target_steps([d])
        return sids

    def source_files(self):
        res = set()
        for st in self.steps.values():
            res |= {f for f in st['in'] if f.startswith('S:')}
        return sorted(res)

    def intermediate_files(self):
        res = set()
        for st in self.steps.values():
            res |= {f for f in st['in'] if f.startswith('B:')}
        return sorted(res)

    def shape(self):
        kinds = sorted(st['kind'] + ('*' if st['always'] else '') + str(len(st['out']))
                       for st in self.steps.values())
        return core.digest(kinds + [len(self.members), len(self.tests)])
