"""Running dag specs against a back end with the stub tool chain."""
import os

from .. import core, proj
from .dag import Model, render


class Project:
    def __init__(self, spec, backend, root=None, conf_args=(), extra_env=None, tag='dag',
                 stub_install=False):
        self.spec = spec
        self.backend = backend
        self.root = root or core.mkscratch(tag)
        self.src = os.path.join(self.root, 'src')
        self.bld = os.path.join(self.root, 'bld')
        self.log = os.path.join(self.root, 'log')
        self.model = Model(spec)
        extra = proj.stub_toolchain_env(self.log, backend)
        extra.update({'CP': 'vwrap-cp -f', 'SYMLINK': 'vwrap-ln -sf',
                      'HARDLINK': 'vwrap-ln -f', 'VSTUB_ENVKEYS': 'VF_E'})
        if stub_install:
            # never really install: the install tools are recorders too
            extra.update({'DOPPEL': 'vrec --doppel', 'PATCHELF': 'vrec --doppel'})
        if extra_env:
            extra.update(extra_env)
        self.env = core.base_env(extra)
        self.conf_args = list(conf_args)

    def materialise(self):
        proj.write_tree(self.src, render(self.spec))

    def configure(self):
        return proj.configure(self.src, self.bld, self.backend, args=self.conf_args,
                              env=self.env)

    def build(self, targets=(), extra=(), extra_env=None):
        """-> (rc, output, records)"""
        proj.clear_log(self.log)
        proj.settle()
        keep = ['-k'] if self.backend == 'make' else ['-k', '0']
        env = self.env if not extra_env else dict(self.env, **extra_env)
        rc, out = proj.build(self.bld, self.backend, targets, env=env,
                             extra=list(extra) + keep)
        recs = proj.read_log(self.log)
        return rc, out, recs

    def classify(self, recs):
        """-> (list of step ids in execution order, unknown records)"""
        sids = []
        unknown = []
        for r in recs:
            base = os.path.basename(r['name'])
            argv = r['argv']
            sid = None
            if len(argv) > 1 and argv[1] == '--doppel':
                sids.append('doppel')
                continue
            ident = [a for a in argv[1:3] if a.startswith('--id=')]
            if ident:
                n = int(ident[0][5:])
                for cand in ('step%d' % n, 'cmd%d' % n):
                    if cand in self.model.steps:
                        sid = cand
                if sid is None:
                    sid = 'test%d' % n
            else:
                outs = proj.step_outputs(r)
                if base in ('vwrap-cp', 'vwrap-ln') and len(argv) >= 3:
                    outs = [os.path.normpath(os.path.join(r['cwd'], argv[-1]))]
                for o in outs:
                    rel = os.path.relpath(o, self.bld)
                    sid = self.model.producer.get('B:' + rel)
                    if sid:
                        break
            if sid is None:
                unknown.append({'name': base, 'argv': argv[:12]})
            else:
                sids.append(sid)
        return sids, unknown

    def path_of(self, fid):
        return os.path.join(self.src if fid.startswith('S:') else self.bld, fid[2:])

    def missing_outputs(self, sids):
        miss = []
        for s in sids:
            for o in self.model.steps[s]['out']:
                if not os.path.lexists(self.path_of(o)):
                    miss.append(o)
        return miss

    def touch(self, fid):
        proj.bump(self.path_of(fid), self.bld, self.src)

    def clean(self):
        proj.settle()
        return proj.build(self.bld, self.backend, ['clean'], env=self.env)

    def cleanup(self):
        core.rmtree(self.root)
