"""C14 workload generator and its own model.

A case is one DAG of libraries and executables, written out completely (names,
output directories, translation units with their language, constants and call
lists, declared `libs=` order, extras), plus one library-mode combination and
one compiler.  From the case alone this module

  * renders the source tree (build.bfg, headers, C / C++ sources),
  * computes what every executable must print (value model), and
  * says, for every dynamic link, which static libraries, whole-archive
    members and forwarded link options *must* have reached it (only along
    chains whose static/shared resolution is fixed by the documentation).

Nothing in here imports bfg9000.

Node kinds
  static   static_library(name, files, libs)
  shared   shared_library(name, files, libs)
  library  library(name, files, libs)            (dual-use: depends on the mode)
  whole    whole_archive(name, files, libs)
  wrap     shared_library(name, libs=[whole...]) (no sources of its own: "turn a
           static library into a shared library", doc/reference/builtins.md)
  exe      executable(name, files, libs)

Every library node i has two translation units, one defining f_n<i>() and one
defining g_n<i>(), so that a user of the library may need only one of its
archive members.  Value of a function = own constant + sum of the functions it
calls (+ an integer recovered through sqrt() when the unit uses libm), all in
unsigned 32-bit arithmetic.  A `wrap` node has no functions of its own: its
users call the functions of the whole archives it contains and declare only
the wrap node.
"""
import posixpath

MASK = 0xFFFFFFFF

# Output directories.  Components are >= 3 characters or contain no
# two-character component (two-character components of *source* paths are
# re-written by within_directory(), which is C05's subject) and contain nothing
# special to make or sh (C01/C04's subject).
DIR_POOL = ['', 'lib', 'lib/sub', 'lib/sub/deeper', 'out/deep/nest/still',
            'bin', 'bin/tools', 'pkg.d/v1.2', 'x-y/z_w', 'plus+dir/libs',
            'lib64', 'out', 'bin/tools/extra', 'third/party/inner', 'lib-x', 'bin2', 'out/dee']
SRC_DIR_POOL = ['', 'src', 'src/core', 'source/tree/deep', 'mods']
LIB_WORDS = ['core', 'util', 'net', 'gfx', 'base', 'math', 'text', 'codec',
             'store', 'proto', 'queue', 'audio', 'io.v2', 'my-lib', 'name_x',
             'c++rt']
EXE_WORDS = ['prog', 'tool', 'main', 'demo', 'run']

STATICISH = ('static', 'whole')
MODES = [(True, True), (False, True), (True, False), (False, False)]


def mode_name(mode):
    return '%sshared,%sstatic' % ('+' if mode[0] else '-', '+' if mode[1] else '-')


def mode_args(mode):
    return ['--enable-shared' if mode[0] else '--disable-shared',
            '--enable-static' if mode[1] else '--disable-static']


# --------------------------------------------------------------------------
# generation

def _lib_symbols(nodes, d):
    """Functions a user of node d may call: [(owner id, 'f'|'g')]."""
    nd = nodes[d]
    if nd['kind'] == 'wrap':
        out = []
        for w in nd['deps']:
            out += [(w, 'f'), (w, 'g')]
        return out
    return [(d, 'f'), (d, 'g')]


def _assign_calls(rng, nodes, node):
    """Distribute calls into the node's translation units: every dependency the
    code uses is declared; at most one declared dependency stays unused."""
    tus = node['tus']
    # a quarter of the nodes with two or more dependencies list one library they do
    # not call themselves (it is still needed further down, or not at all)
    unused = None
    if len(node['deps']) >= 2 and rng.random() < 0.25:
        unused = rng.choice(node['deps'])
    node['unused_dep'] = unused
    for d in node['deps']:
        if d == unused:
            continue
        syms = _lib_symbols(nodes, d)
        k = rng.choice((1, 1, 1, 2, 2, len(syms)))
        chosen = rng.sample(syms, min(k, len(syms)))
        for owner, s in chosen:
            tu = rng.choice(tus)
            call = [d, owner, s]
            if call not in tu['calls']:
                tu['calls'].append(call)
            if rng.random() < 0.15:
                other = rng.choice(tus)
                if call not in other['calls']:
                    other['calls'].append(call)
    for tu in tus:
        rng.shuffle(tu['calls'])


def _mk_tus(rng, idx, kind, stem, srcdir, cxx_bias):
    def lang():
        return 'c++' if rng.random() < cxx_bias else 'c'

    def path(tag, lg):
        ext = '.cpp' if lg == 'c++' else '.c'
        return posixpath.join(srcdir, '%s_%s%s' % (stem, tag, ext))
    tus = []
    if kind == 'exe':
        lg = lang()
        tus.append({'role': 'main', 'sym': 'main', 'lang': lg,
                    'file': path('main', lg), 'k': rng.randint(1, 9999),
                    'calls': [], 'sqrt': 0})
        if rng.random() < 0.5:
            lg2 = 'c' if lg == 'c++' and rng.random() < 0.7 else lang()
            tus.append({'role': 'helper', 'sym': 'h_n%d' % idx, 'lang': lg2,
                        'file': path('help', lg2), 'k': rng.randint(1, 9999),
                        'calls': [], 'sqrt': 0})
    else:
        for tag in ('f', 'g'):
            lg = lang()
            tus.append({'role': tag, 'sym': '%s_n%d' % (tag, idx), 'lang': lg,
                        'file': path('fn' + tag, lg), 'k': rng.randint(1, 9999),
                        'calls': [], 'sqrt': 0})
    return tus


def gen_dag(rng, nmin=5, nmax=12, sysm=None, allow_library=True):
    n = rng.randint(nmin, nmax)
    nexe = rng.randint(1, min(3, max(1, n // 3)))
    nlib = n - nexe
    dirs = rng.sample(DIR_POOL, rng.randint(2, min(5, len(DIR_POOL))))
    srcdirs = rng.sample(SRC_DIR_POOL, rng.randint(1, 3))
    cxx_bias = rng.choice((0.0, 0.3, 0.5, 0.5, 1.0))
    weights = [('static', 30), ('shared', 24), ('library', 24 if allow_library else 0),
               ('whole', 12), ('wrap', 10)]
    nodes = []
    used_names = set()
    for i in range(nlib):
        have_whole = [j for j in range(i) if nodes[j]['kind'] == 'whole']
        opts = [(k, w) for k, w in weights if w and (k != 'wrap' or have_whole)]
        total = sum(w for _, w in opts)
        r = rng.random() * total
        for kind, w in opts:
            r -= w
            if r < 0:
                break
        word = rng.choice(LIB_WORDS)
        # static archives may share a base name across directories (they are
        # linked by path); anything with a soname gets a unique base name
        if kind in STATICISH and rng.random() < 0.25:
            base = word
        else:
            base = 'n%d%s' % (i, word)
        d = rng.choice(dirs)
        name = posixpath.join(d, base)
        while name in used_names:
            base = 'n%d%s' % (i, word)
            name = posixpath.join(d, base)
        used_names.add(name)
        node = {'id': i, 'kind': kind, 'name': name, 'deps': [], 'tus': [],
                'lopt': None, 'sysm_pos': None, 'version': None,
                'as_whole': False}
        if kind == 'wrap':
            k = min(len(have_whole), rng.choice((1, 1, 2)))
            node['deps'] = rng.sample(have_whole, k)
        else:
            cand = list(range(i))
            if cand:
                k = rng.choice((0, 1, 1, 2, 2, 3)) if i else 0
                k = min(k, len(cand))
                # prefer recent nodes so that chains get deep
                picked = set()
                while len(picked) < k:
                    j = cand[-1 - min(int(rng.expovariate(0.6)), len(cand) - 1)]
                    picked.add(j)
                node['deps'] = list(picked)
                rng.shuffle(node['deps'])
            stem = 'n%d%s' % (i, word)
            node['tus'] = _mk_tus(rng, i, kind, stem, rng.choice(srcdirs), cxx_bias)
            if kind in ('static', 'whole', 'library') and rng.random() < 0.3:
                node['lopt'] = '0x%x' % rng.randint(0x1000, 0x7fffffff)
            elif rng.random() < 0.08:
                node['lopt'] = '0x%x' % rng.randint(0x1000, 0x7fffffff)
            if sysm and rng.random() < (0.3 if kind in STATICISH else 0.12):
                tu = rng.choice(node['tus'])
                tu['sqrt'] = rng.randint(2, 999)
                node['sysm_pos'] = rng.randint(0, len(node['deps']))
            if kind in ('shared', 'library') and rng.random() < 0.2:
                so = rng.randint(0, 12)
                node['version'] = ['%d.%d.%d' % (so, rng.randint(0, 9),
                                                 rng.randint(0, 30)), str(so)]
            # an existing static library that every user converts with
            # whole_archive(lib) ("you can pass an existing static library to
            # whole_archive to convert it into a whole archive")
            if kind == 'static' and rng.random() < 0.15:
                node['as_whole'] = True
        nodes.append(node)
    for node in nodes:
        if node['kind'] != 'wrap':
            _assign_calls(rng, nodes, node)

    # executables: together they reach every library
    consumers = {i: 0 for i in range(nlib)}
    for nd in nodes:
        for d in nd['deps']:
            consumers[d] += 1
    sinks = [i for i in range(nlib) if consumers[i] == 0]
    rng.shuffle(sinks)
    exes = []
    for e in range(nexe):
        idx = nlib + e
        d = rng.choice(dirs + ['bin/tools/extra'])
        name = posixpath.join(d, '%s%d' % (rng.choice(EXE_WORDS), idx))
        node = {'id': idx, 'kind': 'exe', 'name': name, 'deps': [],
                'tus': _mk_tus(rng, idx, 'exe', 'x%dapp' % idx,
                               rng.choice(srcdirs), cxx_bias),
                'lopt': None, 'sysm_pos': None, 'version': None,
                'as_whole': False}
        exes.append(node)
    for k, s in enumerate(sinks):
        exes[k % nexe]['deps'].append(s)
    for node in exes:
        extra = rng.choice((0, 1, 1, 2, 3))
        pool = [i for i in range(nlib) if i not in node['deps']]
        for j in rng.sample(pool, min(extra, len(pool))):
            node['deps'].append(j)
        if not node['deps']:
            node['deps'].append(rng.randrange(nlib))
        rng.shuffle(node['deps'])
        if sysm and rng.random() < 0.1:
            rng.choice(node['tus'])['sqrt'] = rng.randint(2, 999)
            node['sysm_pos'] = rng.randint(0, len(node['deps']))
        if rng.random() < 0.1:
            node['lopt'] = '0x%x' % rng.randint(0x1000, 0x7fffffff)
        nodes.append(node)
        _assign_calls(rng, nodes, node)
    # a third of the all-C binaries say so explicitly (lang='c'): the C driver then links
    # them even when a static C++ library is below, and needs that library's runtime
    for node in nodes:
        if node.get('lopt') and rng.random() < 0.5:
            node['lopt_form'] = 'xlinker'
    for node in nodes:
        if node['kind'] in ('exe', 'shared') and node['tus'] and \
           all(tu['lang'] == 'c' for tu in node['tus']) and rng.random() < 0.33:
            node['force_lang'] = 'c'
    return nodes


# ---- hand-written small DAGs (always part of the workload) -----------------

def _tu(role, idx, lang, file, k, calls=(), sqrt=0):
    sym = {'f': 'f_n%d', 'g': 'g_n%d', 'helper': 'h_n%d'}.get(role, 'main')
    return {'role': role, 'sym': sym % idx if '%' in sym else sym, 'lang': lang,
            'file': file, 'k': k, 'calls': [list(c) for c in calls], 'sqrt': sqrt}


def _lib(idx, kind, name, deps, fcalls=(), gcalls=(), lang='c', lopt=None,
         sysm_pos=None, fsqrt=0, srcdir='src', version=None, as_whole=False):
    ext = '.cpp' if lang == 'c++' else '.c'
    stem = 'n%d%s' % (idx, posixpath.basename(name))
    return {'id': idx, 'kind': kind, 'name': name, 'deps': list(deps),
            'lopt': lopt, 'sysm_pos': sysm_pos,
            'version': list(version) if version else None,
            'as_whole': as_whole,
            'tus': [] if kind == 'wrap' else [
                _tu('f', idx, lang, posixpath.join(srcdir, stem + '_fnf' + ext),
                    100 + idx, fcalls, fsqrt),
                _tu('g', idx, lang, posixpath.join(srcdir, stem + '_fng' + ext),
                    200 + idx, gcalls)]}


def _exe(idx, name, deps, calls, lang='c', srcdir='src'):
    ext = '.cpp' if lang == 'c++' else '.c'
    return {'id': idx, 'kind': 'exe', 'name': name, 'deps': list(deps),
            'lopt': None, 'sysm_pos': None, 'version': None, 'as_whole': False,
            'tus': [_tu('main', idx, lang,
                        posixpath.join(srcdir, 'x%dapp_main%s' % (idx, ext)),
                        1000 + idx, calls)]}


def directed_dags(sysm):
    """Small DAGs, each aimed at one mechanism of the property."""
    out = []
    # D1: static chain a -> b -> c; the executable uses a and (one member of) c
    # itself and says so.  b needs the *other* member of c.
    out.append(('static-chain-shortcut', [
        _lib(0, 'static', 'lib/ccc', []),
        _lib(1, 'static', 'lib/sub/bbb', [0], fcalls=[(0, 0, 'g')], gcalls=[(0, 0, 'f')]),
        _lib(2, 'static', 'aaa', [1], fcalls=[(1, 1, 'f')], gcalls=[(1, 1, 'g')]),
        _exe(3, 'bin/prog3', [2, 0], [(2, 2, 'f'), (0, 0, 'f')]),
    ]))
    # D2: whole archive turned into a shared library without sources
    out.append(('whole-archive-wrap', [
        _lib(0, 'whole', 'lib/sub/www', []),
        _lib(1, 'wrap', 'out/n1wrap', [0]),
        _exe(2, 'bin/tools/prog2', [1], [(1, 0, 'f'), (1, 0, 'g')], lang='c'),
    ]))
    # D3: shared chain across nested sibling / parent / child directories
    out.append(('shared-chain-nested', [
        _lib(0, 'shared', 'lib/sub/deeper/n0inner', [], lang='c++'),
        _lib(1, 'shared', 'lib/n1middle', [0], fcalls=[(0, 0, 'f')], gcalls=[(0, 0, 'g')]),
        _lib(2, 'shared', 'out/deep/nest/still/n2outer', [1], fcalls=[(1, 1, 'f')],
             gcalls=[(1, 1, 'g')], lang='c++'),
        _exe(3, 'bin/tools/extra/prog3', [2], [(2, 2, 'f'), (2, 2, 'g')]),
        _exe(4, 'tool4', [0, 2], [(2, 2, 'f'), (0, 0, 'g')], lang='c++'),
    ]))
    # D4: static library with a system library and a link option of its own,
    # two static levels below the executable
    out.append(('static-forwarded-extras', [
        _lib(0, 'static', 'pkg.d/v1.2/n0math', [], lopt='0x5a5a11',
             sysm_pos=0 if sysm else None, fsqrt=37 if sysm else 0),
        _lib(1, 'static', 'lib/n1mid', [0], fcalls=[(0, 0, 'f')], gcalls=[(0, 0, 'g')]),
        _exe(2, 'prog2', [1], [(1, 1, 'f'), (1, 1, 'g')]),
    ]))
    # D5: shared library built on a static one, dual-use library above it
    out.append(('shared-on-static-dual', [
        _lib(0, 'static', 'lib/n0base', [], lang='c++'),
        _lib(1, 'shared', 'lib/sub/n1shim', [0], fcalls=[(0, 0, 'f')], gcalls=[(0, 0, 'g')]),
        _lib(2, 'library', 'x-y/z_w/n2dual', [1, 0], fcalls=[(1, 1, 'f')],
             gcalls=[(0, 0, 'g'), (1, 1, 'g')]),
        _lib(3, 'static', 'n3top', [2], fcalls=[(2, 2, 'f')], gcalls=[(2, 2, 'g')]),
        _exe(4, 'bin/prog4', [3, 2], [(3, 3, 'f'), (2, 2, 'g')]),
    ]))
    # D6: whole archive below a static library, used by a shared library and an
    # executable; the whole archive has a dependency of its own
    out.append(('whole-below-static', [
        _lib(0, 'static', 'lib/n0leaf', []),
        _lib(1, 'whole', 'lib/sub/n1reg', [0], fcalls=[(0, 0, 'f')], gcalls=[(0, 0, 'g')],
             lopt='0x77aa01'),
        _lib(2, 'static', 'out/n2mid', [1], fcalls=[(1, 1, 'f')], gcalls=[]),
        _lib(3, 'shared', 'plus+dir/libs/n3dyn', [2], fcalls=[(2, 2, 'f')], gcalls=[(2, 2, 'g')]),
        _exe(4, 'bin/tools/prog4', [3], [(3, 3, 'f'), (3, 3, 'g')]),
        _exe(5, 'out/tool5', [2], [(2, 2, 'f')]),
    ]))
    # D7: versioned shared libraries (soname + symlinks) in nested directories,
    # one of them looking at an existing static library as a whole archive
    out.append(('versioned-and-whole-view', [
        _lib(0, 'static', 'lib/n0plain', [], as_whole=True),
        _lib(1, 'shared', 'lib/sub/n1ver', [0], fcalls=[(0, 0, 'f')], gcalls=[],
             version=('1.2.3', '1')),
        _lib(2, 'library', 'out/deep/nest/still/n2ver', [1], fcalls=[(1, 1, 'f')],
             gcalls=[(1, 1, 'g')], version=('0.9.30', '0'), lang='c++'),
        _exe(3, 'bin/tools/prog3', [2, 0], [(2, 2, 'f'), (2, 2, 'g'), (0, 0, 'g')]),
    ]))
    # D7b: ONE archive reached as a whole archive through one static library and plainly
    # through another, the two listed in either order
    both = [
        _lib(0, 'static', 'lib/n0both', [], as_whole=True),
        _lib(1, 'static', 'lib/sub/n1viaw', [0], fcalls=[(0, 0, 'f')], gcalls=[]),
        _lib(2, 'static', 'out/n2plain', [0], fcalls=[(0, 0, 'g')], gcalls=[]),
        _exe(3, 'bin/prog3', [2, 1], [(2, 2, 'f'), (1, 1, 'f')]),
        _exe(4, 'tool4', [1, 2], [(1, 1, 'f'), (2, 2, 'f')]),
    ]
    both[0]['plain_users'] = [2]
    out.append(('archive-whole-and-plain', both))
    # D8/D9: static diamond whose shared node has dependencies of its own
    # (prog -> a, b; a -> c; b -> c; c -> d [-> e]): c is reached twice and must
    # still come before d on the link line, whatever the order of the libs
    out.append(('static-diamond-with-tail', [
        _lib(0, 'static', 'deep/base/ddd', []),
        _lib(1, 'static', 'mid/ccc', [0], fcalls=[(0, 0, 'f')], gcalls=[(0, 0, 'g')]),
        _lib(2, 'static', 'left/aaa', [1], fcalls=[(1, 1, 'f')], gcalls=[(1, 1, 'g')]),
        _lib(3, 'static', 'right/sub/bbb', [1], fcalls=[(1, 1, 'g')], gcalls=[(1, 1, 'f')]),
        _exe(4, 'bin/prog4', [2, 3], [(2, 2, 'f'), (3, 3, 'g')]),
    ]))
    out.append(('static-diamond-with-long-tail', [
        _lib(0, 'static', 'deep/eee', [], lang='c++'),
        _lib(1, 'static', 'deep/base/ddd', [0], fcalls=[(0, 0, 'g')], gcalls=[(0, 0, 'f')]),
        _lib(2, 'static', 'mid/ccc', [1], fcalls=[(1, 1, 'f')], gcalls=[(1, 1, 'g')]),
        _lib(3, 'static', 'left/aaa', [2], fcalls=[(2, 2, 'f')], gcalls=[(2, 2, 'g')]),
        _lib(4, 'static', 'right/sub/bbb', [2], fcalls=[(2, 2, 'g')], gcalls=[(2, 2, 'f')]),
        _lib(5, 'shared', 'so/sss', [4, 3], fcalls=[(4, 4, 'f')], gcalls=[(3, 3, 'g')]),
        _exe(6, 'bin/prog6', [4, 3], [(3, 3, 'f'), (4, 4, 'g')]),
        _exe(7, 'tool7', [5], [(5, 5, 'f'), (5, 5, 'g')]),
    ]))
    # D10/D11: a binary that lists a library it does not call itself, *before* the
    # static library that needs it (over-declaration is inside the property's
    # premise: every library still declares its own direct dependencies).  With a
    # driver linking --as-needed the unused shared half is dropped, so the static
    # user's references must be satisfied by what follows it on the line.
    out.append(('listed-but-unused-dual-before-static-user', [
        _lib(0, 'library', 'core/n0core', []),
        _lib(1, 'static', 'plug/n1plug', [0], fcalls=[(0, 0, 'f')], gcalls=[(0, 0, 'g')]),
        _exe(2, 'bin/prog2', [0, 1], [(1, 1, 'f'), (1, 1, 'g')]),
        _exe(3, 'bin/ctl3', [1, 0], [(1, 1, 'f')]),
        _lib(4, 'shared', 'so/n4dyn', [0, 1], fcalls=[(1, 1, 'g')], gcalls=[]),
        _exe(5, 'tool5', [4], [(4, 4, 'f'), (4, 4, 'g')], lang='c++'),
    ]))
    out.append(('listed-but-unused-shared-and-static-before-users', [
        _lib(0, 'shared', 'lib/n0dyn', []),
        _lib(1, 'static', 'lib/sub/n1leaf', []),
        _lib(2, 'static', 'mid/n2mid', [1, 0], fcalls=[(1, 1, 'f')], gcalls=[(0, 0, 'g')]),
        _lib(3, 'library', 'x-y/z_w/n3dual', [2], fcalls=[(2, 2, 'f')], gcalls=[(2, 2, 'g')]),
        _exe(4, 'bin/prog4', [0, 1, 2], [(2, 2, 'f'), (2, 2, 'g')]),
        _exe(5, 'out/tool5', [1, 3, 2], [(3, 3, 'f')], lang='c++'),
    ]))
    # D14: two static libraries below one binary, each forwarding a two-word link option with
    # the same flag word (-Xlinker ARG): every occurrence of the flag word must survive
    d14 = [
        _lib(0, 'static', 'plug/n0alpha', [], lopt='0x1a2b01'),
        _lib(1, 'static', 'plug/sub/n1beta', [], lopt='0x1a2b02', lang='c++'),
        _lib(2, 'static', 'lib/n2reg', [0, 1], fcalls=[(0, 0, 'f')], gcalls=[(1, 1, 'g')],
             lopt='0x1a2b03'),
        _exe(3, 'bin/host3', [0, 1], [(0, 0, 'f'), (1, 1, 'f')]),
        _exe(4, 'tool4', [2], [(2, 2, 'f'), (2, 2, 'g')]),
        _lib(5, 'shared', 'so/n5dyn', [1, 0], fcalls=[(1, 1, 'g')], gcalls=[(0, 0, 'g')]),
        _exe(6, 'out/prog6', [5], [(5, 5, 'f'), (5, 5, 'g')]),
    ]
    for n in d14[:3]:
        n['lopt_form'] = 'xlinker'
    out.append(('two-word-link-options-from-two-static-libraries', d14))
    # D13: binaries and the shared libraries they load in sibling directories whose names are
    # string prefixes of each other (the run-time search path is a relative path between them)
    out.append(('prefix-related-sibling-directories', [
        _lib(0, 'shared', 'tools-support/n0sup', []),
        _lib(1, 'shared', 'lib64/n1wide', [0], fcalls=[(0, 0, 'f')], gcalls=[(0, 0, 'g')]),
        _lib(2, 'shared', 'a/bc/n2deep', [], lang='c++'),
        _exe(3, 'tools/prog3', [0], [(0, 0, 'f'), (0, 0, 'g')]),
        _exe(4, 'lib/tool4', [1], [(1, 1, 'f'), (1, 1, 'g')]),
        _exe(5, 'a/b/prog5', [2, 0], [(2, 2, 'f'), (0, 0, 'g')]),
        _lib(6, 'shared', 'lib/n6short', [1], fcalls=[(1, 1, 'f')], gcalls=[]),
        _exe(7, 'lib6/prog7', [6], [(6, 6, 'f'), (6, 6, 'g')], lang='c++'),
    ]))
    # D12: C binaries (lang='c' given) above static C++ libraries, directly and through a
    # static C library: the C++ runtime must come after the archives that need it
    d12 = [
        _lib(0, 'static', 'cxx/n0impl', [], lang='c++'),
        _lib(1, 'static', 'lib/n1shim', [0], fcalls=[(0, 0, 'f')], gcalls=[(0, 0, 'g')]),
        _exe(2, 'bin/prog2', [0], [(0, 0, 'f'), (0, 0, 'g')]),
        _exe(3, 'bin/tool3', [1], [(1, 1, 'f'), (1, 1, 'g')]),
        _lib(4, 'shared', 'so/n4dyn', [1], fcalls=[(1, 1, 'g')], gcalls=[]),
        _exe(5, 'tool5', [4], [(4, 4, 'f'), (4, 4, 'g')]),
    ]
    for n in (d12[2], d12[3], d12[4]):
        n['force_lang'] = 'c'
    out.append(('c-binaries-on-static-c++-libraries', d12))
    return out


def cases(tier, seed, rng_for, sysm):
    nrandom = 8 if tier == 'quick' else 100
    compilers = ['gcc'] if tier == 'quick' else ['gcc', 'clang']
    dags = [('directed:' + tag, nodes) for tag, nodes in directed_dags(sysm)]
    for i in range(nrandom):
        rng = rng_for(seed, 'c14', 'dag', i)
        # every third DAG has no library() node so that the "both disabled"
        # configuration is buildable for it
        nodes = gen_dag(rng, 5 if i % 4 else 3, 12 if i % 4 else 6, sysm=sysm,
                        allow_library=(i % 3 != 2))
        dags.append(('random:%d:%d' % (seed, i), nodes))
    for di, (tag, nodes) in enumerate(dags):
        for ci, comp in enumerate(compilers):
            if comp == 'clang' and di % 3 and tier != 'quick':
                continue      # clang on every third DAG keeps thorough in budget
            for mi, mode in enumerate(MODES):
                yield {'dag': tag, 'mode': list(mode), 'compiler': comp,
                       'sysm': sysm, 'nodes': nodes}
                # the Ninja back end has its own link/rpath emitters: the same project is also
                # driven through the reference Ninja evaluator (one mode per DAG in quick,
                # rotating; every mode in thorough, gcc only)
                if comp == 'gcc' and (tier != 'quick' or mi == di % len(MODES)):
                    yield {'dag': tag, 'mode': list(mode), 'compiler': comp,
                           'backend': 'ninja', 'sysm': sysm, 'nodes': nodes}


# --------------------------------------------------------------------------
# model

def has_library_nodes(case):
    return any(n['kind'] == 'library' for n in case['nodes'])


def values(case):
    """{function symbol: value} and {exe id: printed value}."""
    nodes = {n['id']: n for n in case['nodes']}
    memo = {}

    def tu_of(owner, s):
        for tu in nodes[owner]['tus']:
            if tu['role'] == s:
                return tu
        raise KeyError((owner, s))

    def val(owner, s):
        key = (owner, s)
        if key not in memo:
            tu = tu_of(owner, s)
            v = tu['k'] + tu['sqrt']
            for via, o, sym in tu['calls']:
                v += val(o, sym)
            memo[key] = v & MASK
        return memo[key]

    printed = {}
    for n in case['nodes']:
        if n['kind'] != 'exe':
            continue
        v = val(n['id'], 'main')
        helper = [tu for tu in n['tus'] if tu['role'] == 'helper']
        if helper:
            v += val(n['id'], 'helper')
        printed[n['id']] = v & MASK
    return memo, printed


def variant(node, mode, consumer_static):
    """'static' | 'shared' | None (ambiguous by the documentation alone)."""
    k = node['kind']
    if k in STATICISH:
        return 'static'
    if k in ('shared', 'wrap'):
        return 'shared'
    if k == 'library':
        sh, st = mode
        if sh and not st:
            return 'shared'
        if st and not sh:
            return 'static'
        return None
    raise ValueError(k)


def dynamic_links(case):
    """ids of nodes that certainly produce a dynamically linked file."""
    mode = tuple(case['mode'])
    out = []
    for n in case['nodes']:
        if n['kind'] in ('exe', 'shared', 'wrap'):
            out.append(n['id'])
        elif n['kind'] == 'library' and mode[0]:
            out.append(n['id'])
    return out


def must_receive(case, nid):
    """Static-ish node ids that certainly are forwarded to dynamic link `nid`
    (chains of static/whole nodes, and library() nodes when only static is
    enabled), with the chain that proves it."""
    nodes = {n['id']: n for n in case['nodes']}
    mode = tuple(case['mode'])
    got = {}

    def walk(i, chain):
        for d in nodes[i]['deps']:
            v = variant(nodes[d], mode, consumer_static=(i != nid))
            if v != 'static':
                continue
            whole = nodes[d]['kind'] == 'whole' or bool(nodes[d].get('as_whole'))
            if d not in got:
                got[d] = {'chain': chain + [d], 'whole': whole}
                walk(d, chain + [d])
    walk(nid, [nid])
    return got


def depth(case):
    nodes = {n['id']: n for n in case['nodes']}
    memo = {}

    def dp(i):
        if i not in memo:
            memo[i] = 1 + max([dp(d) for d in nodes[i]['deps']] or [0])
        return memo[i]
    return max(dp(i) for i in nodes)


def out_file(node, variant_):
    d, b = posixpath.split(node['name'])
    if node['kind'] == 'exe':
        return node['name']
    if variant_ == 'static':
        return posixpath.join(d, 'lib' + b + '.a')
    if node.get('version'):
        return posixpath.join(d, 'lib' + b + '.so.' + node['version'][0])
    return posixpath.join(d, 'lib' + b + '.so')


def version_links(node):
    """(soname path, link path) of a versioned shared library, else None."""
    if not node.get('version') or node['kind'] not in ('shared', 'library'):
        return None
    d, b = posixpath.split(node['name'])
    return (posixpath.join(d, 'lib' + b + '.so.' + node['version'][1]),
            posixpath.join(d, 'lib' + b + '.so'))


# --------------------------------------------------------------------------
# rendering

def _header(node):
    g = 'C14_N%d_H' % node['id']
    lines = ['#ifndef ' + g, '#define ' + g, '#ifdef __cplusplus', 'extern "C" {',
             '#endif']
    for tu in node['tus']:
        if tu['role'] != 'main':
            lines.append('unsigned %s(void);' % tu['sym'])
    lines += ['#ifdef __cplusplus', '}', '#endif', '#endif', '']
    return '\n'.join(lines)


def _source(node, tu, all_nodes):
    owners = sorted({o for _, o, _ in tu['calls']} | {node['id']})
    lines = ['/* generated for C14: node %d (%s) */' % (node['id'], node['kind'])]
    if tu['role'] == 'main':
        lines.append('#include <stdio.h>')
    if tu['sqrt']:
        lines.append('#include <math.h>')
    for o in owners:
        lines.append('#include "n%d.h"' % o)
    cxx = tu['lang'] == 'c++'
    # a non-static global that the code reads: in a shared object this needs position-
    # independent code, also when the object reaches it through a static library
    gv = 'c14_gv_%s_n%d' % (tu['role'], node['id'])
    if cxx:
        lines.append('extern "C" { volatile unsigned %s = %du; }' % (gv, tu['k']))
    else:
        lines.append('volatile unsigned %s = %du;' % (gv, tu['k']))
    if tu['role'] == 'main':
        lines.append('int main(void) {')
    else:
        if cxx:
            lines.append('extern "C" unsigned %s(void) {' % tu['sym'])
        else:
            lines.append('unsigned %s(void) {' % tu['sym'])
    if cxx:
        # operator new / delete come from the C++ runtime library
        lines.append('    unsigned *p = new unsigned(%s);' % gv)
        lines.append('    unsigned r = *p;')
        lines.append('    delete p;')
    else:
        lines.append('    unsigned r = %s;' % gv)
    for via, o, s in tu['calls']:
        lines.append('    r += %s_n%d();' % (s, o))
    if tu['sqrt']:
        q = tu['sqrt']
        lines.append('    { volatile double v = %d.0; r += (unsigned)(sqrt(v) + 0.5); }'
                     % (q * q))
    if tu['role'] == 'main':
        helper = [t for t in node['tus'] if t['role'] == 'helper']
        if helper:
            lines.append('    r += %s();' % helper[0]['sym'])
        lines.append('    printf("%u\\n", r);')
        lines.append('    return 0;')
    else:
        lines.append('    return r;')
    lines.append('}')
    lines.append('')
    return '\n'.join(lines)


def lopt_symbol(node):
    return 'c14_opt_n%d' % node['id']


def render(case):
    """-> {relative path: content} of the source tree."""
    files = {}
    nodes = case['nodes']
    bfg = ['# generated for C14 (%s)' % case['dag'], "project('c14dag')"]
    uses_sysm = any(n['sysm_pos'] is not None for n in nodes)
    if uses_sysm:
        bfg.append('sysm = shared_library(%r)' % case['sysm'])
    fn = {'static': 'static_library', 'shared': 'shared_library',
          'library': 'library', 'whole': 'whole_archive', 'wrap': 'shared_library',
          'exe': 'executable'}
    for n in nodes:
        if n['tus']:
            files['include/n%d.h' % n['id']] = _header(n)
        for tu in n['tus']:
            files[tu['file']] = _source(n, tu, nodes)
        byid = {x['id']: x for x in nodes}
        libs = [('whole_archive(n%d)' if byid[d].get('as_whole') and
                 n['id'] not in byid[d].get('plain_users', []) else 'n%d') % d
                for d in n['deps']]
        if n['sysm_pos'] is not None:
            libs.insert(n['sysm_pos'], 'sysm')
        args = [repr(n['name'])]
        if n['tus']:
            args.append('files=[%s]' % ', '.join(repr(t['file']) for t in n['tus']))
            args.append("includes=['include']")
        if libs:
            args.append('libs=[%s]' % ', '.join(libs))
        if n['lopt']:
            if n.get('lopt_form') == 'xlinker':
                # the same option as two words: a flag word followed by its argument
                args.append('link_options=[%r, %r]' %
                            ('-Xlinker', '--defsym=%s=%s' % (lopt_symbol(n), n['lopt'])))
            else:
                args.append('link_options=[%r]' %
                            ('-Wl,--defsym=%s=%s' % (lopt_symbol(n), n['lopt'])))
        if n.get('version'):
            args.append('version=%r, soversion=%r' % tuple(n['version']))
        if n.get('force_lang'):
            args.append('lang=%r' % n['force_lang'])
        bfg.append('n%d = %s(%s)' % (n['id'], fn[n['kind']], ', '.join(args)))
    bfg.append('')
    files['build.bfg'] = '\n'.join(bfg)
    return files
