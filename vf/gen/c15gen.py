"""C15 generator: random installable projects + the *model* of what `install`
must place where.

Nothing here imports bfg9000.  The placement rules are the documented ones
(doc/reference/builtins.md #install, doc/reference/command-line.md, and the
project's own integration tests test_install / test_library / test_subdirs /
test_pkg_config):

  * a file from the source tree installs under its basename, a built file under
    its build-dir-relative path, both below the directory for its kind
    (executable: bindir; libraries and .pc: libdir; headers: includedir;
    man pages: mandir/man<level>/<basename>);
  * `directory='d'` appends d to the kind's directory, `directory=Path(d, root)`
    replaces the kind's directory;
  * a header directory declared with include=<glob> installs exactly the matching
    files, keeping their path relative to the directory;
  * run-time dependencies (shared libraries a dynamically linked installed file
    links to, also through static libraries, transitively) are installed too; a
    versioned library that is only a dependency installs the real file and the
    soname link, an explicitly installed one also the development link; an
    explicitly installed static library also installs the static libraries it
    was declared to depend on; static libraries linked into a dynamic binary
    are not installed;
  * pkg_config(...) installs <libdir>/pkgconfig/<name>.pc and the headers and
    libraries passed to it.

Where docs/tests do not define the placement (a dependency of something that is
installed with directory=..., shared dependencies of an explicitly installed
static library) the generator does not go.
"""
import fnmatch
import posixpath

ROOTS = ('prefix', 'exec_prefix', 'bindir', 'libdir', 'includedir', 'datadir',
         'mandir')
KIND_ROOT = {'exe': 'bindir', 'shared': 'libdir', 'static': 'libdir',
             'header': 'includedir', 'hdrdir': 'includedir', 'man': 'mandir',
             'pc': 'libdir'}

LIB_NAMES = ['alpha', 'beta', 'gamma', 'delta', 'eps', 'zeta', 'eta', 'theta']
EXE_NAMES = ['prog', 'tool', 'run-me', 'app2']
SUBDIRS = ['', '', '', 'sub/', 'lib/', 'x/y/', 'out.d/']
DIR_STRINGS = ['sub', 'x y', 'deep/er', 'proj-1.0', 'a b/c d', 'v+1', 'up/../norm',
               'trail/']
DIR_WORDS = ['usr', 'pre fix', 'opt/my app', 'stage 1', 'local', 'a b c', 'x-1.0',
             'inst+all']
VERSIONS = [('1.2.3', '1'), ('0.9', '0'), ('2.0.0', '2.0'), ('3.1', '3')]
PATTERNS = ['*.h', '**/*.h', '*.hpp', 'sub/*.h', '**/*.hpp']
HDR_TREE = ['x.h', 'y.h', 'v.hpp', 'sub/z.h', 'sub/z2.hpp', 'sub/deep/w.h',
            'other dir/s p.h', 'notes.txt', 'sub/readme.md', 'sub/deep/k.hpp']

FEATURES = ['dual', 'versioned-dep', 'versioned-explicit', 'static-chain', 'fwd-static',
            'hdrdir-dir', 'man-gz', 'man-plain', 'data', 'pc', 'pc-auto',
            'dir-string', 'dir-path', 'deep-chain', 'subdir-names', 'built-files']
# combinations the real code currently rejects at configure time (see the report);
# forced at a low fixed rate so that they neither hide nor dominate
DISPUTED_FEATURES = ['pc-auto-dir', 'dep-explicit-dir']


# --------------------------------------------------------------------------
# glob model for the handful of patterns used (POSIX-shell globs + `**` =
# zero or more components, as documented for find_files)

def glob_match(pattern, rel):
    pp = pattern.split('/')
    rp = rel.split('/')

    def rec(i, j):
        if i == len(pp):
            return j == len(rp)
        if pp[i] == '**':
            return any(rec(i + 1, k) for k in range(j, len(rp) + 1))
        if j == len(rp):
            return False
        return fnmatch.fnmatchcase(rp[j], pp[i]) and rec(i + 1, j + 1)
    return rec(0, 0)


# --------------------------------------------------------------------------

def _pick_dirspec(rng, allow_path=True, force=None):
    """-> None | ['str', 'd'] | ['path', root, 'd']"""
    how = force or rng.choice(['none', 'none', 'str', 'str', 'path', 'abs'])
    if how in ('path', 'abs') and not allow_path:
        how = 'str'
    if how == 'none':
        return None
    if how == 'str':
        return ['str', rng.choice(DIR_STRINGS)]
    if how == 'abs':
        # an absolute directory given as a plain string (below the scratch root, which the
        # script learns from the environment): staged below DESTDIR like everything else
        return ['abs', 'absroot', rng.choice(['opt dir', 'abs/x', 'srv'])]
    return ['path', rng.choice(['prefix', 'exec_prefix', 'datadir', 'libdir',
                                'includedir', 'bindir', 'mandir']),
            rng.choice(DIR_STRINGS + ['pkg'])]


def gen_config(rng, space=False):
    """Install-dir options; values are '@R@/root/...' (placeholders resolved at
    run time).  Always a scratch --prefix."""
    def word():
        return rng.choice(DIR_WORDS)
    cfg = {'prefix': '@R@/root/' + (rng.choice([w for w in DIR_WORDS if ' ' in w])
                                    if space else word())}
    if rng.random() < 0.35:
        cfg['exec_prefix'] = '@R@/root/' + rng.choice(['ex ec', 'arch', word() + '/e'])
    for opt, names in (('bindir', ['my bin', 'b', 'sbin']),
                       ('libdir', ['my lib', 'lib64', 'l i b/x']),
                       ('includedir', ['inc lude', 'hdrs']),
                       ('datadir', ['sha re', 'data']),
                       ('mandir', ['the man', 'man'])):
        if rng.random() < 0.3:
            base = rng.choice([cfg['prefix'], '@R@/root/elsewhere', '@R@/root'])
            cfg[opt] = base + '/' + rng.choice(names)
    if 'bindir' in cfg and rng.random() < 0.2:
        cfg['libdir'] = cfg['bindir']      # programs and libraries side by side
    for k in list(cfg):
        if rng.random() < 0.15:
            cfg[k] += '/'          # a trailing separator changes nothing
    return cfg


def resolve_dirs(cfg):
    """Documented defaults (doc/reference/command-line.md), POSIX."""
    d = {}
    cfg = {k: (v.rstrip('/') or '/') for k, v in cfg.items()}
    d['prefix'] = cfg['prefix']
    d['exec_prefix'] = cfg.get('exec_prefix', d['prefix'])
    d['bindir'] = cfg.get('bindir', d['exec_prefix'] + '/bin')
    d['libdir'] = cfg.get('libdir', d['exec_prefix'] + '/lib')
    d['includedir'] = cfg.get('includedir', d['prefix'] + '/include')
    d['datadir'] = cfg.get('datadir', d['prefix'] + '/share')
    d['mandir'] = cfg.get('mandir', d['datadir'] + '/man')
    # (the prefix is always <scratch root>/root/<word>)
    d['absroot'] = cfg['prefix'][:cfg['prefix'].rindex('/root/')] + '/root/abs'
    return d


def place(kind, suffix, dirspec):
    """-> (root, rel) for an item of `kind` with install suffix `suffix`."""
    if dirspec is None:
        return KIND_ROOT[kind], suffix
    if dirspec[0] == 'str':
        return KIND_ROOT[kind], posixpath.join(dirspec[1], suffix)
    return dirspec[1], posixpath.join(dirspec[2], suffix)


def lib_files(lib, half=None):
    """build-dir-relative names of a library's files (half='static': the archive of a
    dual-use library; otherwise its shared object)."""
    d, b = posixpath.split(lib['name'])
    pre = d + '/' if d else ''
    if lib['type'] == 'static' or half == 'static':
        return {'real': pre + 'lib' + b + '.a'}
    if lib['version']:
        v, so = lib['version']
        return {'real': pre + 'lib%s.so.%s' % (b, v),
                'soname': pre + 'lib%s.so.%s' % (b, so),
                'link': pre + 'lib%s.so' % b}
    return {'real': pre + 'lib' + b + '.so'}


def needed_name(lib):
    f = lib_files(lib)
    return posixpath.basename(f.get('soname', f['real']))


class Project:
    def __init__(self):
        self.libs = {}       # id -> record (insertion = declaration order)
        self.exes = {}
        self.hdrdirs = []
        self.headers = []
        self.mans = []
        self.datas = []
        self.pc = None
        self.groups = []     # [{'items': [ref...], 'dir': dirspec}]
        self.project_call = None
        self.repeat = None
        self.disputed = None   # lib id explicitly installed with directory= AND a
                               # run-time dependency of something installed plainly

    # ---- link model
    def node(self, ref):
        return self.libs.get(ref) or self.exes[ref]

    def direct_shared(self, ref, seen=None):
        out = []
        for l in self.node(ref)['libs']:
            rec = self.libs[l]
            if rec['type'] in ('shared', 'dual'):      # users link the shared object
                if l not in out:
                    out.append(l)
            else:
                for s in self.direct_shared(l):
                    if s not in out:
                        out.append(s)
        return out

    def runtime_closure(self, ref):
        out = []

        def walk(r):
            for s in self.direct_shared(r):
                if s not in out:
                    out.append(s)
                    walk(s)
        walk(ref)
        return out

    def static_closure(self, ref):
        out = []

        def walk(r):
            for l in self.libs[r]['libs']:
                if l not in out:
                    out.append(l)
                    walk(l)
        walk(ref)
        return out

    def pure_static(self, ref):
        return all(self.libs[l]['type'] == 'static' and self.pure_static(l)
                   for l in self.libs[ref]['libs'])

    def dual_ok(self, ref):
        """a dual-use library all of whose dependencies are dual-use ones of that kind or
        static libraries without shared dependencies: both halves have a defined closure"""
        return all((self.libs[l]['type'] == 'dual' and self.dual_ok(l)) or
                   (self.libs[l]['type'] == 'static' and self.pure_static(l))
                   for l in self.libs[ref]['libs'])

    def value(self, ref):
        n = self.node(ref)
        return n['const'] + sum(self.value(l) for l in n['libs'])

    def has_install_deps(self, ref):
        n = self.node(ref)
        if n['type'] in ('static', 'dual'):
            return bool(n['libs'])
        return bool(self.direct_shared(ref))


def gen_project(rng, force=()):
    P = Project()
    force = set(force)
    sub = (lambda: rng.choice(SUBDIRS)) if ('subdir-names' in force or
                                            rng.random() < 0.6) else (lambda: '')
    if force & {'pc-auto', 'pc-auto-dir'} or rng.random() < 0.5:
        P.project_call = ['proj', rng.choice(['1.0', '2.3.4'])]

    names = list(LIB_NAMES)
    rng.shuffle(names)
    nlib = rng.randint(2, 5)
    if 'deep-chain' in force:
        nlib = max(nlib, 4)
    const = 1
    for i in range(nlib):
        lid = names[i]
        typ = rng.choice(['shared', 'shared', 'static', 'dual'] if 'dual' in force or
                         rng.random() < 0.35 else ['shared', 'shared', 'static'])
        if 'dual' in force and i in (0, 2):
            typ = 'dual'
        if i == 0 and force & {'versioned-dep', 'versioned-explicit', 'deep-chain',
                               'fwd-static', 'dep-explicit-dir'}:
            typ = 'shared'
        if i == 0 and 'static-chain' in force:
            typ = 'static'
        if i == 1 and force & {'static-chain', 'fwd-static'}:
            typ = 'static'
        if i == 1 and 'deep-chain' in force:
            typ = 'shared'
        prior = list(P.libs)
        cand_static = [l for l in prior if P.libs[l]['type'] == 'static']
        cand_shared = [l for l in prior if P.libs[l]['type'] == 'shared']
        deps = []
        if typ == 'dual':
            ok = [l for l in prior if (P.libs[l]['type'] == 'dual' and P.dual_ok(l)) or
                  (P.libs[l]['type'] == 'static' and P.pure_static(l))]
            for l in ok:
                if rng.random() < 0.6 or ('dual' in force and i == 2):
                    deps.append(l)
        elif typ == 'shared':
            for l in prior:
                if rng.random() < 0.45:
                    deps.append(l)
            if 'deep-chain' in force and prior and prior[-1] not in deps:
                deps.append(prior[-1])
        else:
            for l in cand_static:
                if rng.random() < 0.5:
                    deps.append(l)
            if i == 1 and 'static-chain' in force and cand_static:
                deps = [cand_static[0]]
            # a static library forwarding a shared one (never installed explicitly)
            if (rng.random() < 0.3 or (i == 1 and 'fwd-static' in force)) \
               and cand_shared and 'static-chain' not in force:
                deps.append(rng.choice(cand_shared))
        version = None
        if typ in ('shared', 'dual') and (rng.random() < 0.35 or
                                (i == 0 and force & {'versioned-dep',
                                                     'versioned-explicit'})):
            version = list(rng.choice(VERSIONS))
        const += rng.randint(1, 5)
        P.libs[lid] = {'id': lid, 'name': sub() + lid, 'type': typ,
                       'version': version, 'libs': deps, 'const': const,
                       'fn': ('library' if typ == 'dual' else
                              rng.choice(['shared_library', 'shared_library', 'library'])
                              if typ == 'shared' else 'static_library')}

    enames = list(EXE_NAMES)
    rng.shuffle(enames)
    nexe = rng.randint(1, 3)
    for i in range(nexe):
        eid = enames[i]
        deps = [l for l in P.libs if rng.random() < 0.5]
        if i == 0:
            # the first executable links the most recently declared library, so
            # chains are exercised from the top
            last = list(P.libs)[-1]
            if last not in deps:
                deps.append(last)
            if 'fwd-static' in force:
                deps = [list(P.libs)[1]]
            if force & {'versioned-dep', 'dep-explicit-dir'} and \
               list(P.libs)[0] not in deps:
                deps.append(list(P.libs)[0])
        const += rng.randint(1, 5)
        P.exes[eid] = {'id': eid, 'name': sub() + eid, 'type': 'exe',
                       'libs': deps, 'const': const}

    # ---- non-binary installables
    nh = rng.randint(0, 2)
    if force & {'hdrdir-dir', 'pc', 'pc-auto-dir'}:
        nh = max(nh, 1)
    for i in range(nh):
        d = ['include', 'api/pub'][i]
        tree = [f for f in HDR_TREE if rng.random() < 0.75]
        pat = rng.choice(PATTERNS)
        if i == 0 and 'hdrdir-dir' in force:
            pat = '**/*.h'
            tree = list(HDR_TREE)
        if not any(glob_match(pat, f) for f in tree):
            tree.append({'*.h': 'x.h', '**/*.h': 'sub/z.h', '*.hpp': 'v.hpp',
                         'sub/*.h': 'sub/z.h', '**/*.hpp': 'sub/z2.hpp'}[pat])
        P.hdrdirs.append({'id': 'hd%d' % i, 'dir': d, 'include': pat,
                          'tree': sorted(set(tree))})
    for i in range(rng.randint(0, 2)):
        P.headers.append({'id': 'h%d' % i,
                          'path': ['hdr/single.h', 'top.hpp'][i], 'built': None})
    if 'built-files' in force or rng.random() < 0.25:
        # a header produced in the build tree (copy_file): installs under its
        # build-dir-relative path
        P.headers.append({'id': 'h%d' % len(P.headers), 'path': 'hdr/conf-src.h',
                          'built': rng.choice(['gen/conf.h', 'conf.h',
                                               'g e n/conf.h'])})
    nm = rng.randint(0, 2)
    mans = []
    if 'man-gz' in force:
        mans.append(True)
    if 'man-plain' in force:
        mans.append(False)
    while len(mans) < nm:
        mans.append(rng.choice([True, False, 'auto']))
    for i, comp in enumerate(mans):
        path = ['man/proj.1', 'doc/other.3', 'man/conf.5'][i]
        level = None
        if rng.random() < 0.25:
            level = rng.choice([1, 5, 8])
        P.mans.append({'id': 'm%d' % i, 'path': path, 'compress': comp,
                       'level': level})
    nd = rng.randint(0, 2)
    if 'data' in force:
        nd = max(nd, 1)
    for i in range(nd):
        P.datas.append({'id': 'd%d' % i,
                        'path': ['data/d.txt', 'res/table one.dat'][i],
                        'built': (i == 0 and ('built-files' in force or
                                              rng.random() < 0.25))})

    # ---- what gets installed
    explicit = []
    for e in P.exes:
        if rng.random() < 0.8 or e == list(P.exes)[0]:
            explicit.append(e)
    libs_l = list(P.libs)
    for l in libs_l:
        rec = P.libs[l]
        if rec['type'] == 'static' and not P.pure_static(l):
            continue      # shared deps of an installed static lib: not defined
        p = 0.3
        if 'dual' in force:
            # one dual-use library with dependencies is installed by name, its dependencies
            # are not: they have to arrive as dependencies of its two halves
            tgt = [x for x in libs_l if P.libs[x]['type'] == 'dual' and P.libs[x]['libs']]
            if tgt and l == tgt[-1]:
                p = 1
            elif tgt and l in P.static_closure(tgt[-1]):
                p = 0
        if rec['type'] == 'static' and 'static-chain' in force and l == libs_l[1]:
            p = 1
        if 'versioned-explicit' in force and l == libs_l[0]:
            p = 1
        if rng.random() < p:
            explicit.append(l)

    pc_libs, pc_incs = [], []
    if 'dep-explicit-dir' in force:
        P.disputed = libs_l[0]
        if P.disputed not in explicit:
            explicit.append(P.disputed)
    want_pc = bool(force & {'pc', 'pc-auto', 'pc-auto-dir'}) or \
        (rng.random() < 0.3 and not P.disputed)
    if want_pc:
        auto = (bool(force & {'pc-auto', 'pc-auto-dir'}) or
                (P.project_call is not None and 'pc' not in force and
                 rng.random() < 0.4))
        if auto and P.project_call is None:
            auto = False
        if auto:
            P.pc = {'auto': True, 'name': P.project_call[0]}
        else:
            cands = [l for l in libs_l if (P.libs[l]['type'] == 'shared' or
                                           P.pure_static(l)) and l != P.disputed]
            pc_libs = [l for l in cands if rng.random() < 0.4][:2]
            if P.hdrdirs and 'hdrdir-dir' not in force and \
               (rng.random() < 0.7 or 'pc' in force):
                pc_incs = [P.hdrdirs[0]['id']]
            P.pc = {'auto': False, 'name': rng.choice(['proj', 'my-pkg', 'lib+x']),
                    'version': rng.choice(['1.0', '0.1.2']),
                    'libs': pc_libs, 'includes': pc_incs}

    # things that get installed implicitly (as a dependency) live at the
    # default place, so an explicit install of them must not pass directory=
    implicit = set(pc_libs) | set(pc_incs)
    for r in explicit + pc_libs:
        n = P.node(r)
        if n['type'] in ('static', 'dual'):
            implicit.update(P.static_closure(r))
        if n['type'] != 'static':
            implicit.update(P.runtime_closure(r))

    items = list(explicit)
    items += [h['id'] for h in P.hdrdirs if rng.random() < 0.85 or
              force & {'hdrdir-dir', 'pc-auto-dir'}]
    items += [h['id'] for h in P.headers]
    items += [m['id'] for m in P.mans]
    rng.shuffle(items)
    if P.pc and P.pc['auto'] and 'pc-auto-dir' not in force:
        # auto_fill passes every explicitly installed header/library to
        # install() again without directory=; see 'pc-auto-dir' for the
        # combination with directory=
        implicit.update(i for i in items if i in P.libs or
                        i.startswith('h'))

    # partition into install() calls
    forced_dirs = []
    if 'dir-string' in force:
        forced_dirs.append('str')
    if 'dir-path' in force:
        forced_dirs.append('path')
    groups = []
    if P.disputed:
        # first call: install(lib, directory='...'); the executables that need
        # it are installed afterwards without directory=
        items.remove(P.disputed)
        groups.append({'items': [P.disputed],
                       'dir': ['str', rng.choice(['sub', 'x y', 'priv/libs'])]})
    for it in items:
        plain_only = it in implicit or (it in P.libs or it in P.exes) and \
            P.has_install_deps(it)
        if it == 'hd0' and force & {'hdrdir-dir', 'pc-auto-dir'} and \
           it not in implicit:
            groups.append({'items': [it], 'dir': _pick_dirspec(rng, force='str')})
            continue
        if plain_only:
            tgt = [g for g in groups if g['dir'] is None]
            if tgt and rng.random() < 0.6:
                rng.choice(tgt)['items'].append(it)
            else:
                groups.append({'items': [it], 'dir': None})
            continue
        if groups and rng.random() < 0.4:
            rng.choice(groups)['items'].append(it)
        else:
            f = forced_dirs.pop() if forced_dirs else None
            groups.append({'items': [it], 'dir': _pick_dirspec(rng, force=f)})
    for d in P.datas:      # no default root: needs directory=Path(...)
        tgt = [g for g in groups if g['dir'] and g['dir'][0] == 'path']
        if tgt and rng.random() < 0.4:
            rng.choice(tgt)['items'].append(d['id'])
        else:
            groups.append({'items': [d['id']],
                           'dir': ['path', rng.choice(['datadir', 'datadir',
                                                       'prefix']),
                                   rng.choice(['proj', 'da ta', 'share d/x'])]})
    P.groups = groups
    # the same install() call twice is idempotent
    P.repeat = rng.randrange(len(groups)) if groups and rng.random() < 0.3 else None
    return P


# --------------------------------------------------------------------------
# rendering

def _pylit(s):
    return repr(s)


def render(P):
    """-> {relpath: content} for the source tree."""
    files = {}
    out = ['# generated by vf/gen/c15gen.py']
    if P.project_call:
        out.append('project(%r, %r)' % tuple(P.project_call))
    var = {}
    for lid, l in P.libs.items():
        src = 'src/%s.c' % lid
        decl = ''.join('int f_%s(void);\n' % d for d in l['libs'])
        body = ' + '.join(['%d' % l['const']] + ['f_%s()' % d for d in l['libs']])
        files[src] = '%sint f_%s(void) { return %s; }\n' % (decl, lid, body)
        args = [_pylit(l['name']), 'files=[%r]' % src]
        if l['libs']:
            args.append('libs=[%s]' % ', '.join('l_' + d for d in l['libs']))
        if l['version']:
            args.append('version=%r, soversion=%r' % tuple(l['version']))
        if l['type'] == 'dual':
            args.append("kind='dual'")
        out.append('l_%s = %s(%s)' % (lid, l['fn'], ', '.join(args)))
        var[lid] = 'l_' + lid
    for eid, e in P.exes.items():
        src = 'src/main_%s.c' % eid.replace('-', '_')
        decl = ''.join('int f_%s(void);\n' % d for d in e['libs'])
        body = ' + '.join(['%d' % e['const']] + ['f_%s()' % d for d in e['libs']])
        files[src] = ('#include <stdio.h>\n%sint main(void) { printf("%%d\\n", %s); '
                      'return 0; }\n' % (decl, body))
        args = [_pylit(e['name']), 'files=[%r]' % src]
        if e['libs']:
            args.append('libs=[%s]' % ', '.join('l_' + d for d in e['libs']))
        v = 'e_' + eid.replace('-', '_')
        out.append('%s = executable(%s)' % (v, ', '.join(args)))
        var[eid] = v
    for h in P.hdrdirs:
        for f in h['tree']:
            files[posixpath.join(h['dir'], f)] = '/* %s */\n' % f
        out.append('%s = header_directory(%r, include=%r)' %
                   (h['id'], h['dir'], h['include']))
        var[h['id']] = h['id']
    for h in P.headers:
        files[h['path']] = '/* single %s */\n' % h['path']
        if h.get('built'):
            out.append('%s = copy_file(%r, header_file(%r))' %
                       (h['id'], h['built'], h['path']))
        else:
            out.append('%s = header_file(%r)' % (h['id'], h['path']))
        var[h['id']] = h['id']
    for m in P.mans:
        files[m['path']] = '.TH %s\n.SH NAME\n%s\n' % (m['id'], m['path'])
        args = [_pylit(m['path'])]
        if m['compress'] != 'auto':
            args.append('compress=%r' % m['compress'])
        if m['level'] is not None:
            args.append('level=%r' % m['level'])
        out.append('%s = man_page(%s)' % (m['id'], ', '.join(args)))
        var[m['id']] = m['id']
    for d in P.datas:
        files[d['path']] = 'data %s\n' % d['path']
        if d.get('built'):
            out.append('%s = copy_file(generic_file(%r))' % (d['id'], d['path']))
        else:
            out.append('%s = generic_file(%r)' % (d['id'], d['path']))
        var[d['id']] = d['id']

    def dirarg(ds):
        if ds is None:
            return ''
        if ds[0] == 'str':
            return ', directory=%r' % ds[1]
        if ds[0] == 'abs':
            return ", directory=env.getvar('VF_ABSROOT') + %r" % ('/' + ds[2])
        return ', directory=Path(%r, InstallRoot.%s)' % (ds[2], ds[1])

    pc_line = None
    if P.pc:
        if P.pc['auto']:
            pc_line = 'pkg_config(auto_fill=True)'
        else:
            args = [_pylit(P.pc['name']), 'version=%r' % P.pc['version']]
            if P.pc['includes']:
                args.append('includes=[%s]' % ', '.join(P.pc['includes']))
            if P.pc['libs']:
                args.append('libs=[%s]' % ', '.join(var[l] for l in P.pc['libs']))
            pc_line = 'pkg_config(%s)' % ', '.join(args)
    for i, g in enumerate(P.groups):
        its = [var[x] for x in g['items']]
        if len(its) > 1 and i % 3 == 1:
            out.append('install([%s]%s)' % (', '.join(its), dirarg(g['dir'])))
        else:
            out.append('install(%s%s)' % (', '.join(its), dirarg(g['dir'])))
    if P.repeat is not None:
        g = P.groups[P.repeat]
        out.append('install(%s%s)' % (', '.join(var[x] for x in g['items']),
                                      dirarg(g['dir'])))
    if pc_line:
        out.append(pc_line)
    files['build.bfg'] = '\n'.join(out) + '\n'
    return files


# --------------------------------------------------------------------------
# the model: what must be installed where

def model(P, gzip=True):
    """-> (entries, elfs, runs).  entries: list of dicts
         root, rel           placement
         type                'file' | 'link'
         kind                exe shared static soname-link dev-link header
                             hdrdir-member man data pc
         origin              explicit | runtime-dep | static-dep | pkg-config
         src                 ['src'|'bld', relpath] (content reference) | None
         elf                 None | {'needed': [...], 'rpath': [[root, reldir]...],
                                     'rpath_max': [[root, reldir]...], 'soname': s}
         link_to             rel of the entry a link must resolve to
    """
    entries = {}

    def add(root, rel, **kw):
        key = (root, posixpath.normpath(rel))
        e = dict(root=root, rel=key[1], **kw)
        if key in entries:
            old = entries[key]
            if old['kind'] != e['kind'] or old.get('src') != e.get('src'):
                raise ValueError('collision at %r' % (key,))
            if e['origin'] == 'explicit':
                old['origin'] = 'explicit'
            if not e.get('optional'):
                old['optional'] = False
            return old
        entries[key] = e
        return e

    placed = {}      # lib id -> [(root, reldir-of-runtime-file), ...] alternatives

    def add_binary(ref, dirspec, origin, explicit, half=None):
        n = P.node(ref)
        if n['type'] == 'dual' and half is None:
            # a dual-use library that is installed by name: both halves
            add_binary(ref, dirspec, origin, explicit, 'shared')
            add_binary(ref, dirspec, origin, explicit, 'static')
            return
        # A library the script installed explicitly with directory= which is also
        # a dependency of something installed plainly: the explicit location is
        # required; a second copy at the default location is tolerated.
        optional = (ref == P.disputed and origin != 'explicit')
        if n['type'] == 'exe':
            root, rel = place('exe', n['name'], dirspec)
            add(root, rel, type='file', kind='exe', origin=origin,
                src=['bld', n['name']], item=ref)
            return
        lf = lib_files(n, half)
        kind = n['type'] if n['type'] != 'dual' else half
        root, rel = place(kind, lf['real'], dirspec)
        add(root, rel, type='file', kind=kind, origin=origin,
            src=['bld', lf['real']], item=ref, optional=optional)
        if 'soname' in lf:
            r2, rel2 = place(kind, lf['soname'], dirspec)
            add(r2, rel2, type='link', kind='soname-link', origin=origin,
                src=None, link_to=rel, item=ref, optional=optional)
            if explicit:
                r3, rel3 = place(kind, lf['link'], dirspec)
                add(r3, rel3, type='link', kind='dev-link', origin=origin,
                    src=None, link_to=rel, item=ref, optional=optional)
        if kind == 'shared':
            rt = lf.get('soname', lf['real'])
            rroot, rrel = place(kind, rt, dirspec)
            alt = [rroot, posixpath.dirname(posixpath.normpath(rrel))]
            if alt not in placed.setdefault(ref, []):
                placed[ref].append(alt)

    def add_with_deps(ref, dirspec, origin):
        n = P.node(ref)
        add_binary(ref, dirspec, origin, True)
        if n['type'] in ('static', 'dual'):
            # whoever links the archive needs the archives it was written against
            for d in P.static_closure(ref):
                add_binary(d, None, 'static-dep', False, 'static')
        if n['type'] != 'static':
            for d in P.runtime_closure(ref):
                add_binary(d, None, 'runtime-dep', False, 'shared')

    byid = {}
    for coll in (P.hdrdirs, P.headers, P.mans, P.datas):
        for x in coll:
            byid[x['id']] = x

    def add_hdrdir(h, dirspec, origin):
        for f in h['tree']:
            if glob_match(h['include'], f):
                root, rel = place('hdrdir', f, dirspec)
                add(root, rel, type='file', kind='hdrdir-member', origin=origin,
                    src=['src', posixpath.join(h['dir'], f)], item=h['id'])

    for g in P.groups:
        for it in g['items']:
            if it in P.libs or it in P.exes:
                add_with_deps(it, g['dir'], 'explicit')
            elif it.startswith('hd'):
                add_hdrdir(byid[it], g['dir'], 'explicit')
            elif it.startswith('h'):
                h = byid[it]
                if h.get('built'):
                    root, rel = place('header', h['built'], g['dir'])
                    add(root, rel, type='file', kind='built-header',
                        origin='explicit', src=['bld', h['built']], item=it)
                else:
                    root, rel = place('header', posixpath.basename(h['path']),
                                      g['dir'])
                    add(root, rel, type='file', kind='header', origin='explicit',
                        src=['src', h['path']], item=it)
            elif it.startswith('m'):
                m = byid[it]
                comp = m['compress'] if m['compress'] != 'auto' else gzip
                level = m['level']
                if level is None:
                    level = int(posixpath.splitext(m['path'])[1][1])
                base = posixpath.basename(m['path'])
                if comp:
                    suffix = 'man%d/%s.gz' % (level, base)
                    src = None     # built: checked as gzip of the source
                else:
                    suffix = 'man%d/%s' % (level, base)
                    src = ['src', m['path']]
                root, rel = place('man', suffix, g['dir'])
                add(root, rel, type='file', kind='man', origin='explicit',
                    src=src, gz_of=(m['path'] if comp else None), item=it)
            elif it.startswith('d'):
                d = byid[it]
                ds = g['dir']
                if d.get('built'):
                    add(ds[1], posixpath.join(ds[2], d['path']),
                        type='file', kind='built-data', origin='explicit',
                        src=['bld', d['path']], item=it)
                else:
                    add(ds[1], posixpath.join(ds[2], posixpath.basename(d['path'])),
                        type='file', kind='data', origin='explicit',
                        src=['src', d['path']], item=it)
    if P.pc:
        if not P.pc['auto']:
            for l in P.pc['libs']:
                add_with_deps(l, None, 'pkg-config')
            for hid in P.pc['includes']:
                add_hdrdir(byid[hid], None, 'pkg-config')
        add('libdir', 'pkgconfig/%s.pc' % P.pc['name'], type='file', kind='pc',
            origin='pkg-config', src=['bld', 'pkgconfig/%s.pc' % P.pc['name']],
            item='pc')

    # ELF expectations
    for e in entries.values():
        if e['kind'] in ('exe', 'shared') and e['type'] == 'file':
            ref = e['item']
            direct = P.direct_shared(ref)
            closure = P.runtime_closure(ref)
            e['elf'] = {
                'needed': sorted(needed_name(P.libs[d]) for d in direct),
                'needed_at': {needed_name(P.libs[d]): placed[d] for d in direct},
                'rpath_max': sorted(set(tuple(a) for d in closure
                                        for a in placed[d])),
                'soname': (needed_name(P.libs[ref]) if e['kind'] == 'shared'
                           else None),
            }
            if e['kind'] == 'exe':
                e['stdout'] = '%d\n' % P.value(ref)
    return sorted(entries.values(), key=lambda e: (e['root'], e['rel']))
