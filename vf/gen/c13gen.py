"""c13gen: projects that exercise every builtin keeping sets/dicts internally,
and the invocation contexts under which each is configured.

A project is the random build graph of vf/gen/dag.py (rendered by dag.render,
never modified) WRAPPED by hand-written extension blocks: lines are prepended
and appended to its build.bfg and files are added to the tree.  Everything is
plain data; `gen_project` returns {'files', 'conf_args', 'const_env',
'toolchain', 'features'} and `gen_runs` the list of invocation contexts.  No
bfg9000 import.
"""
from . import dag

WORDS = ['alpha', 'b', 'cc', 'delta9', 'e_e', 'fox-trot', 'g7', 'hotel', 'ii', 'juliet_k',
         'kilo', 'lima.x', 'm', 'nov', 'oscar', 'papa2', 'q-q', 'romeo', 'sierra_s', 't',
         'uniform', 'vv', 'whiskey', 'x1', 'yankee', 'zulu', 'A0', 'Bb', 'CCC', 'Dd4',
         'Echo', 'F', 'Golf_', 'H-h', 'India', 'J9', 'Kk', 'LL', 'Mike', 'N_n']

# variables bfg9000 neither documents nor reads (doc/reference/environment-vars.md and a grep
# for getvar/environ in the tree were used to pick them)
NOISE_POOL = [('VF_NOISE_A', '1'), ('VF_NOISE_B', 'two words'), ('EDITOR', 'vi'),
              ('LESS', '-R'), ('COLUMNS', '132'), ('LINES', '50'), ('USER', 'nobody'),
              ('LOGNAME', 'nobody'), ('MAIL', '/var/mail/nobody'), ('XDG_RUNTIME_DIR', '/run/x'),
              ('SSH_AUTH_SOCK', '/tmp/agent.1'), ('DISPLAY', ':0'), ('TZ', 'UTC'),
              ('HISTSIZE', '1000'), ('a', 'lower'), ('ZZ_LAST', 'z'), ('_', '/usr/bin/env'),
              ('TERM', 'dumb'), ('TERM_PROGRAM', 'x'), ('VF_EMPTY', ''), ('LS_COLORS', 'di=01;34'),
              ('OLDPWD', '/'), ('SHLVL', '3'), ('HOSTNAME', 'h')]
NOISE_NAMES = sorted({k for k, v in NOISE_POOL} | {'PWD', 'PYTHONHASHSEED', 'LANG'})


def _names(rng, n, ext, prefix=''):
    picked = rng.sample(WORDS, min(n, len(WORDS)))
    return ['%s%s%s' % (prefix, w, ext) for w in picked]


def gen_project(rng, index=0, size=None):
    """-> project dict (JSON)."""
    spec = dag.gen_spec(rng, size=size)
    base = dag.render(spec)
    files = dict(base)
    dag_bfg = files.pop('build.bfg')
    feats = []
    pre = []
    post = []

    # ---- project(), options.bfg and project arguments
    pname = 'proj%d' % index
    pver = '%d.%d' % (rng.randint(0, 3), rng.randint(0, 9))
    pre.append('project(%r, version=%r)' % (pname, pver))
    opt_lines = ["argument('name', default='unnamed', help='a name')",
                 "argument('level', type=int, default=1)",
                 "argument('mode', choices=['fast', 'small', 'none'], default='none')",
                 "argument('feature', action='enable', default=False)",
                 "argument('extra-def', action='append', default=[], dest='extradef')"]
    conf_args = []
    if rng.random() < 0.8:
        conf_args.append('--name=%s' % rng.choice(['foo', 'Bar', 'x_y']))
    if rng.random() < 0.6:
        conf_args.append('--level=%d' % rng.randint(0, 9))
    if rng.random() < 0.5:
        conf_args.append('--x-mode=%s' % rng.choice(['fast', 'small']))
    if rng.random() < 0.5:
        conf_args.append(rng.choice(['--enable-feature', '--disable-feature']))
    for d in rng.sample(['D1', 'D2', 'D3', 'D4'], rng.randint(0, 3)):
        conf_args.append('--extra-def=%s' % d)
    feats.append('options.bfg')

    # ---- global options with semantic options
    gopts = ["opts.define('NAME', argv.name)", "opts.define('LVL', str(argv.level))"]
    gopts += rng.sample(["opts.warning('all')", "opts.warning('all', 'extra')", "opts.std('c11')",
                         "opts.optimize('size')", "opts.optimize('speed', 'linktime')",
                         "opts.debug()", "opts.pic()", "opts.pthread()", "opts.sanitize()",
                         "'-fno-common'", "opts.define('EMPTY')",
                         "opts.include_dir(header_directory('xh'))"], rng.randint(1, 6))
    pre.append('global_options([%s] + [opts.define(d) for d in argv.extradef], lang=%r)' %
               (', '.join(gopts), 'c'))
    pre.append("if argv.feature:\n    global_options([opts.define('FEATURE', argv.mode)], "
               "lang='c')")
    if rng.random() < 0.7:
        lopts = rng.sample(["opts.debug()", "opts.pthread()", "opts.lib_dir(directory('xh'))",
                            "opts.rpath_dir(Path('/opt/x/lib'))", "'-Wl,--as-needed'",
                            "opts.optimize('linktime')", "opts.lib('m')"], rng.randint(1, 4))
        pre.append('global_link_options([%s])' % ', '.join(lopts))
    feats.append('global_options')

    # ---- header directory with many entries, headers installed one by one
    hnames = _names(rng, rng.randint(6, 18), '.h')
    for i, h in enumerate(hnames):
        files['xh/' + h] = '#define XH_%d %d\n' % (i, i)
    files['xh/notes.txt'] = 'not a header\n'
    files['xh/inner/deep.h'] = '#define DEEP 1\n'
    pre.append("x_hd = header_directory('xh', include='*.h')")
    feats.append('header_directory')

    # ---- find_files / find_paths over a tree with many entries
    ndirs = rng.randint(3, 7)
    dnames = _names(rng, ndirs, '', prefix='d_')
    tree_c, tree_dat = [], []
    for d in dnames:
        sub = rng.choice(['', '', 'n/'])
        for f in _names(rng, rng.randint(3, 12), '.c'):
            files['xt/%s/%s%s' % (d, sub, f)] = 'int x_%d(void){return 0;}\n' % len(tree_c)
            tree_c.append('xt/%s/%s%s' % (d, sub, f))
        for f in _names(rng, rng.randint(2, 9), '.dat'):
            files['xt/%s/%s' % (d, f)] = 'dat\n'
            tree_dat.append('xt/%s/%s' % (d, f))
        for f in _names(rng, rng.randint(0, 4), '.h'):
            files['xt/%s/%s' % (d, f)] = '/* h */\n'
        if rng.random() < 0.4:
            files['xt/%s/skip_me.c' % d] = 'int skipped;\n'
        if rng.random() < 0.3:
            files['xt/%s/keep~' % d] = 'backup\n'
    files['xmain.c'] = dag.STUB_C
    files['xlib.c'] = 'int xl(void){return 0;}\n'
    pre.append("x_srcs = find_files('xt/**/*.c', extra='*.h', exclude=['skip_*'])")
    pre.append("x_dat = find_files('xt/**/*.dat')")
    pre.append("x_dirs = find_paths('xt/*', type='d')")
    two = rng.sample(dnames, 2)
    pre.append("x_some = find_paths(['xt/%s/**', 'xt/%s/*'], type='f', extra='*.dat', "
               "filter=filter_by_platform)" % (two[0], two[1]))
    pre.append("x_all = find_files('xt/**', type='*', cache=%s)" % rng.choice(['True', 'False']))
    pre.append("x_lib = library('xlibrary', files=['xlib.c'], includes=[x_hd]%s)" %
               rng.choice(['', ", version='1.2.3', soversion='1'"]))
    pre.append("x_slib = static_library('xstat', files=x_srcs[:3], includes=[x_hd] + "
               "[header_directory(d) for d in x_dirs])")
    pre.append("x_find = executable('xfind', files=['xmain.c'] + x_srcs, includes=[x_hd], "
               "libs=[x_lib], compile_options=[opts.define('N_DIRS', str(len(x_dirs)))])")
    how = rng.choice(['copy_files', 'each', 'both'])
    if how in ('copy_files', 'both'):
        pre.append("x_copies = copy_files(x_dat, mode=%r, directory='xcopied')" %
                   rng.choice(['copy', 'symlink', 'hardlink']))
    else:
        pre.append("x_copies = [copy_file(i, mode='copy') for i in x_dat]")
    if how == 'both':
        pre.append("x_copies2 = [copy_file(Path('xc2').append(i.path.basename() + str(n)), i) "
                   "for n, i in enumerate(x_dat)]")
        pre.append("alias('xcopy2', x_copies2)")
    pre.append("alias('xcopy', x_copies)")
    if rng.random() < 0.6:
        files['xcpp.cpp'] = 'int xcpp(){return 0;}\n'
        files['xt/%s/extra_unit.cc' % dnames[0]] = 'int xcc(){return 0;}\n'
        pre.append("global_options([opts.std('c++14'), opts.define('CXXNAME', argv.name)], "
                   "lang='c++')")
        pre.append("x_mixed = executable('xmixed', files=['xmain.c', 'xcpp.cpp'] + "
                   "find_files('xt/**/*.cc'), libs=[x_lib, x_slib])")
        pre.append("x_mixlib = shared_library('xmixlib', files=['xcpp.cpp', 'xlib.c'])")
        feats.append('c++')
    feats.append('find')

    # ---- submodules (hand-written, small)
    nsub = rng.randint(1, 3)
    subs = []
    for s in range(nsub):
        d = ['xs/one', 'xs/two/deep', 'xsub3'][s]
        for f in _names(rng, rng.randint(2, 6), '.c'):
            files['%s/%s' % (d, f)] = 'int s%d_%d;\n' % (s, len(files))
        for f in _names(rng, rng.randint(1, 5), '.h'):
            files['%s/include/%s' % (d, f)] = '/* sub header */\n'
        files['%s/build.bfg' % d] = (
            "inc = header_directory('include', include='*.h')\n"
            "srcs = find_files('*.c')\n"
            "lib = %s('sub%d', files=srcs, includes=[inc], "
            "compile_options=[opts.define('SUB', argv.name)])\n"
            "%s"
            "export(lib=lib, inc=inc, srcs=srcs)\n" % (
                rng.choice(['static_library', 'library', 'shared_library']), s,
                rng.choice(['', "default(lib)\nalias('sub%d-all', [object_file(file=srcs[-1])])\n" % s,
                            "test(executable('subt%d', files=srcs[:1]))\n" % s])))
        if rng.random() < 0.5:
            files['%s/options.bfg' % d] = "argument('sub%d-flag', default='dflt')\n" % s
            opt_lines.append("submodule(%r)" % d)
        pre.append("x_sub%d = submodule(%r)" % (s, d))
        subs.append('x_sub%d' % s)
    pre.append("x_subexe = executable('xsubexe', files=['xmain.c'], libs=[%s], includes=[%s])" % (
        ', '.join("%s['lib']" % s for s in subs), ', '.join("%s['inc']" % s for s in subs)))
    feats.append('submodule')
    files['options.bfg'] = '\n'.join(opt_lines) + '\n'

    # ---- pkg_config (not auto-filled ones are usable as packages)
    specs = ['>=1.0', '<2.0', '!=1.5', '!=1.7', '>0.1', '<=3']
    multi = rng.random() < 0.5
    conflicts = ["'oldthing'"]
    if multi:
        # several specifiers that simplify to ONE (a Conflicts entry can carry only one;
        # anything else is refused at configure time since the C17 fix in /repo)
        conflicts.append("('rival', %r)" % rng.choice(['>=1.0,>0.1', '<2.0,<=3', '>0.1,>=1.0',
                                                       '<=3,<2.0']))
        feats.append('pc-multi-specifier')
    else:
        conflicts.append("('rival', %r)" % rng.choice(specs))
    requires = rng.sample(["'zlib'", "('liblz4', '>=1.0')", "'libffi'", "('tinfo', '>=6')",
                           "'ncurses'"], rng.randint(1, 4))
    pre.append("x_pc = pkg_config('xpk', version='1.0', includes=[x_hd], libs=[x_lib], "
               "requires=[%s], requires_private=['libcrypto'], conflicts=[%s], "
               "options=[opts.define('XPK'), opts.pthread()], link_options=[opts.pthread()], "
               "desc='x package', url='http://example.invalid/x')" %
               (', '.join(requires), ', '.join(conflicts)))
    pre.append("x_pkuser = executable('xpkuser', files=['xmain.c'], packages=[x_pc])")
    feats.append('pkg_config')

    # ---- after the dag: install, auto-filled pkg_config, tests, extra_dist, aliases
    files['README.x'] = 'readme\n'
    files['doc/x.1'] = '.TH X 1\n'
    files['doc/more/notes.md'] = 'notes\n'
    files['xtest.c'] = dag.STUB_C
    post.append("install(x_find, x_lib, x_hd, x_subexe)")
    post.append("install(*[header_file(i) for i in find_paths('xh/*.h')][:%d])" %
                rng.randint(2, 6))
    post.append("install(*x_copies, directory=Path('stuff', InstallRoot.datadir))")
    if rng.random() < 0.6:
        post.append("install(directory('xt/%s', include='**/*.dat'), "
                    "directory=Path('xdata', InstallRoot.datadir))" % dnames[-1])
        feats.append('install-directory')
    if rng.random() < 0.6:
        post.append("install(man_page('doc/x.1', compress=%s))" % rng.choice(['True', 'False']))
        feats.append('man_page')
    for s in subs:
        post.append("install(%s['lib'])" % s)
    post.append("pkg_config(auto_fill=True)")
    if rng.random() < 0.6:
        post.append("pkg_config('xauto2', auto_fill=True, version='7', "
                    "libs_private=[x_slib], requires=['zlib'])")
    post.append("x_t1 = executable('xtest1', files=['xtest.c'], libs=[x_lib])")
    post.append("test(x_t1, environment={'XT_B': '2', 'XT_A': '1', 'XT_C': '3'})")
    post.append("x_drv = test_driver(['vdrv', '--drv'], environment={'DRV': '1'})")
    post.append("test(x_find, driver=x_drv)")
    post.append("test_deps(alias('xtestdeps', x_copies[:2]))")
    post.append("extra_dist(files=['README.x'] + find_paths('doc/**', type='f'), dirs=['doc'])")
    post.append("alias('xall', [x_find, x_subexe, x_pkuser, x_slib])")
    feats += ['install', 'tests', 'extra_dist', 'alias']

    files['build.bfg'] = '\n'.join(pre) + '\n' + dag_bfg + '\n'.join(post) + '\n'

    # ---- configuration that stays the same for all runs of the project
    if rng.random() < 0.6:
        conf_args += rng.choice([['--enable-static'], ['--enable-static', '--disable-shared'],
                                 ['--enable-shared']])
    if rng.random() < 0.5:
        # (a relative value would be resolved against the invocation directory, i.e. it would
        # be a different configuration in every run)
        conf_args += ['--libdir', '/opt/c13/lib64']
    if rng.random() < 0.3:
        conf_args += ['--includedir', '/opt/c13/inc/ludes', '--datadir', '/opt/data']
    const_env = {}
    if rng.random() < 0.5:
        const_env['CFLAGS'] = rng.choice(['-O2', '-O2 -g', '-DA=b'])
    if rng.random() < 0.3:
        const_env['CPPFLAGS'] = '-DCPP=1'
    if rng.random() < 0.4:
        const_env['LDFLAGS'] = rng.choice(['-Wl,--as-needed', '-L/x -s'])
    if rng.random() < 0.3:
        const_env['LDLIBS'] = '-lm'
    toolchain = None
    if rng.random() < 0.35:
        toolchain = 'xtc.bfg'
        files['xtc.bfg'] = (
            "target_platform('linux')\n"
            "compiler('vcc', 'c')\ncompiler(['vc++'], 'c++')\n"
            "compile_options(['-O1', '-fno-strict-aliasing'], 'c')\n"
            "link_options(['-Wl,-z,now'])\n"
            "lib_options(['-ldl'])\n"
            "environ['XTC_B'] = 'b'\nenviron['XTC_A'] = 'a'\n"
            "environ['CPPFLAGS'] = environ.get('CPPFLAGS', '') + ' -DTC=1'\n"
            "%s" % rng.choice(['', "install_dirs(libdir='/opt/tc/lib')\n"]))
        feats.append('toolchain')
    return {'files': files, 'conf_args': conf_args, 'const_env': const_env,
            'toolchain': toolchain, 'features': sorted(feats), 'name': pname,
            'dag_nodes': len(spec['nodes'])}


SPELLINGS = ['configure-abs-build', 'configure-rel-build', 'configure-abs-src-from-build',
             'configure-rel-src-from-build', 'into-abs', 'into-rel', '9k-build', '9k-src-from-build',
             'into-rel-dotted']
CWDS = ['src', 'parent', 'elsewhere']
# False: unset; 'physical': the cwd as getcwd() reports it; 'logical': the same directory named
# through the symlink <root>/link -> <root> (what `cd link/src` leaves behind); 'stale': the
# logical name of ANOTHER directory; 'garbage': not an absolute path
PWD_KINDS = [False, 'physical', 'logical', 'logical', 'stale', 'garbage']


def gen_runs(rng, n):
    """Invocation contexts.  Run 0 is the plain reference invocation."""
    runs = [{'seed': '0', 'spelling': 'configure-abs-build', 'cwd': 'src', 'noise': [],
             'order': 0, 'pwd': False, 'drop': [], 'bare': False}]
    seeds = ['1', '2', '3', '4', '5', '7', '11', '42', '1000', '4294967295', 'random', 'random']
    spells = list(SPELLINGS)
    rng.shuffle(spells)
    for i in range(1, n):
        sp = spells[(i - 1) % len(spells)]
        cwd = rng.choice(CWDS) if sp.startswith('into') else None
        runs.append({
            'seed': rng.choice(seeds) if i > 1 else 'random',
            'spelling': sp, 'cwd': cwd,
            'noise': [list(kv) for kv in rng.sample(NOISE_POOL, rng.randint(0, 10))],
            'order': rng.randint(1, 10 ** 6),       # env dict insertion order = shuffle seed
            # $PWD as a shell would (or would not) leave it; the whole scratch tree is also
            # reachable through a symlink, 'logical' names the cwd through that link
            'pwd': rng.choice(PWD_KINDS) if i > 2 else ['logical', 'physical'][i - 1],
            'drop': ['LANG'] if rng.random() < 0.3 else [],
            'via': rng.random() < 0.5,           # process started with cwd spelled through the link
            'bare': rng.random() < 0.3,          # found through PATH instead of /venv/bin/...
        })
    return runs
