"""Generator and model for C07: C/C++ projects whose headers are only reachable
through include directories, plus edit histories.  Never imports bfg9000.

A *state* is plain JSON:

  {'lang': 'c'|'c++', 'incmode': ..., 'incdirs': [name, ...], 'lib': bool,
   'headers': {hid: {'name': relpath below its incdir, 'plain': fallback relpath,
                     'dir': index into incdirs, 'base': int,
                     'inc': [[hid, coef], ...]}},
   'tus': {tid: {'file': relpath, 'base': int, 'inc': [[hid, coef], ...],
                 'lib': bool}},          # tid '0' is the TU that holds main
  }

Every header H defines  H_<id> = base + sum(coef * H_<dep>)  over the headers it
includes *directly*; every TU defines f<id>() = base + sum(coef * H_<dep>) over its
direct includes.  Macro expansion is lazy, hence the value of f<id>() depends on
exactly the transitive include set of the TU.  `main` prints one line per TU, so
a stale object is visible (and identifiable) in the program output.

Optionally the executable's TUs use a precompiled header: state['pch'] =
{'file': 'pre.h', 'form': 'object'|'string', 'base': int, 'inc': [[hid, coef], ...]} and
each using TU has 'pch': coef.  The PCH header defines H_P like any header; the TUs do
NOT #include it (it arrives through the compiler's -include), and at least one header is
reachable only through it.

An *op* is plain JSON as well (see `apply`); applying it is deterministic, so a
replay needs no random numbers.
"""
import copy

M32 = 1 << 32
SRC_MARK = '@C07SRC@'      # replaced by the absolute source directory when written
INCMODES = ['hdrdir', 'str', 'optobj', 'optraw', 'global']
# characters a header name may contain here ('/', '\\', '"', NUL and newline cannot
# appear in a portable #include "..." and are never generated)
# white space that is not ASCII space/tab/newline (str.isspace() is true for all of them);
# compilers write them into depfiles as they are and make/ninja read the name as one word
WS_SPECIALS = ['\u00a0', '\u3000', '\u2003', '\u2028', '\u0085', '\x0b', '\x0c', '\x1f']
SPECIALS = list(' $#%&()*?[]:,@!+~{};=|<>^`\'-') + WS_SPECIALS
SPECIALS_COMMON = list(' $#%&()+,@~=')      # drawn more often
SPECIAL_INCDIRS = ['include dir', 'h$dr', 'i#n', 'p%c', 'a+b', 'x@y', 'in(c)', 'q&r']


# --------------------------------------------------------------------------
# model

def hdr_path(st, hid):
    h = st['headers'][hid]
    return st['incdirs'][h['dir']] + '/' + h['name']


def exe_name(st):
    return st.get('exe_name') or 'prog'


def lib_name(st):
    return st.get('lib_name') or 'core'


def tu_target(st, tid):
    """Name of the build-directory tree the TU's object lands in (<target>.int/...)."""
    if st['tus'][tid].get('lib') and tid != '0':
        return 'lib' + lib_name(st)
    return exe_name(st)


def _cxx(st):
    return st['lang'] == 'c++'


def src_ext(st):
    return '.cpp' if _cxx(st) else '.c'


def closure_of(st, incs):
    """Header ids reachable from a list of [hid, coef] includes."""
    seen = []
    todo = [h for h, c in incs]
    while todo:
        h = todo.pop()
        if h in seen:
            continue
        seen.append(h)
        todo.extend(d for d, c in st['headers'][h]['inc'])
    return sorted(seen, key=int)


def pch_files(st):
    """The PCH header and every header it pulls in."""
    p = st.get('pch')
    if not p:
        return []
    return [p['file']] + [hdr_path(st, h) for h in closure_of(st, p['inc'])]


def pch_users(st):
    if not st.get('pch'):
        return []
    return [tid for tid in sorted(st['tus'], key=int) if st['tus'][tid].get('pch')]


def own_closure_files(st, tid):
    """What a TU reaches without the precompiled header."""
    t = st['tus'][tid]
    return [t['file']] + [hdr_path(st, h) for h in closure_of(st, t['inc'])]


def tu_closure_files(st, tid):
    out = own_closure_files(st, tid)
    if st.get('pch') and st['tus'][tid].get('pch'):
        out += [f for f in pch_files(st) if f not in out]
    return out


def only_through_pch(st):
    """Header ids that some PCH user sees, and sees only through the PCH."""
    p = st.get('pch')
    if not p:
        return []
    users = pch_users(st)
    out = []
    for h in closure_of(st, p['inc']):
        f = hdr_path(st, h)
        if users and all(f not in own_closure_files(st, t) for t in users):
            out.append(h)
    return out


def depth(st, hid, _memo=None):
    memo = {} if _memo is None else _memo
    if hid in memo:
        return memo[hid]
    memo[hid] = 1 + max([depth(st, d, memo) for d, c in st['headers'][hid]['inc']] + [0])
    return memo[hid]


def height_above(st, hid):
    """Longest chain of includers above a header (0 = included by TUs only / nobody)."""
    best = 0
    for k, h in st['headers'].items():
        if any(d == hid for d, c in h['inc']):
            best = max(best, 1 + height_above(st, k))
    return best


def includers(st, hid):
    hs = [k for k, h in st['headers'].items() if any(d == hid for d, c in h['inc'])]
    ts = [k for k, t in st['tus'].items() if any(d == hid for d, c in t['inc'])]
    ts = sorted(ts, key=int)
    if st.get('pch') and any(d == hid for d, c in st['pch']['inc']):
        ts.append('pch')
    return sorted(hs, key=int), ts


def reaches(st, a, b):
    """header a transitively includes header b (or a == b)"""
    return a == b or b in closure_of(st, st['headers'][a]['inc'])


def hvalue(st, hid, memo=None):
    memo = {} if memo is None else memo
    if hid not in memo:
        h = st['headers'][hid]
        memo[hid] = (h['base'] + sum(c * hvalue(st, d, memo) for d, c in h['inc'])) % M32
    return memo[hid]


def pvalue(st, memo=None):
    p = st['pch']
    memo = {} if memo is None else memo
    return (p['base'] + sum(c * hvalue(st, d, memo) for d, c in p['inc'])) % M32


def tvalue(st, tid):
    t = st['tus'][tid]
    memo = {}
    v = t['base'] + sum(c * hvalue(st, d, memo) for d, c in t['inc'])
    if st.get('pch') and t.get('pch'):
        v += t['pch'] * pvalue(st, memo)
    return v % M32


def expected_lines(st):
    return ['f%s=%d' % (tid, tvalue(st, tid)) for tid in sorted(st['tus'], key=int)]


def expected_output(st):
    return ''.join(l + '\n' for l in expected_lines(st))


# --------------------------------------------------------------------------
# rendering

def _expr(base, incs):
    return ' + '.join(['%du' % base] + ['%du*(H_%s)' % (c, d) for d, c in incs])


def inc_spelling(st, includer, d):
    """How `includer` writes its #include of header d: st['spell'] may ask for spellings that
    are not normalised ('../<incdir>/x.h', './x.h'), which compilers copy into their depfiles
    as they are - the same file under another name."""
    name = st['headers'][d]['name']
    sp = st.get('spell')
    if not sp:
        return name
    k = (int(d) + len(str(includer))) % 3
    incdir = st['incdirs'][st['headers'][d]['dir']]
    if sp == 'dotdot' or (sp == 'mixed' and k == 0):
        return '../%s/%s' % (incdir, name)
    if sp == 'dot' or (sp == 'mixed' and k == 1):
        return './' + name
    return name


def render_header(st, hid):
    h = st['headers'][hid]
    L = ['/* header %s */' % hid, '#ifndef G_%s' % hid, '#define G_%s' % hid]
    for d, c in h['inc']:
        L.append('#include "%s"' % inc_spelling(st, 'h' + hid, d))
    if h.get('broken'):
        L.append('this header does not compile (saved half-way through an edit);')
    L.append('#define H_%s (%s)' % (hid, _expr(h['base'], h['inc'])))
    L.append('#endif')
    return '\n'.join(L) + '\n'


def render_pch(st):
    p = st['pch']
    L = ['/* precompiled header */', '#ifndef G_P', '#define G_P']
    for d, c in p['inc']:
        L.append('#include "%s"' % inc_spelling(st, 'pch', d))
    L.append('#define H_P (%s)' % _expr(p['base'], p['inc']))
    L.append('#endif')
    return '\n'.join(L) + '\n'


def render_tu(st, tid):
    t = st['tus'][tid]
    L = ['/* translation unit %s */' % tid]
    if tid == '0':
        L.append('#include <stdio.h>')
    for d, c in t['inc']:
        L.append('#include "%s"' % inc_spelling(st, 't' + tid, d))
    terms = list(t['inc'])
    if st.get('pch') and t.get('pch'):
        terms.append(['P', t['pch']])       # H_P arrives through the compiler's -include
    if st.get('broken') == tid:
        L.append('this translation unit does not compile (work in progress);')
    L.append('unsigned f%s(void) { return %s; }' % (tid, _expr(t['base'], terms)))
    if tid == '0':
        others = [k for k in sorted(st['tus'], key=int) if k != '0']
        for k in others:
            L.append('unsigned f%s(void);' % k)
        L.append('int main(void) {')
        for k in sorted(st['tus'], key=int):
            L.append('    printf("f%s=%%u\\n", f%s());' % (k, k))
        L.append('    return 0;')
        L.append('}')
    return '\n'.join(L) + '\n'


def render_bfg(st):
    mode = st['incmode']
    lang = st['lang']
    L = ['# generated by vf.gen.c07gen', "project('c07', version='1.0')"]
    dirs = st['incdirs']
    if st.get('incabs'):
        dirs = [SRC_MARK + '/' + d for d in dirs]
    if mode in ('hdrdir', 'optobj', 'global'):
        for i, d in enumerate(dirs):
            L.append('inc%d = header_directory(%r)' % (i, d))
    names = ', '.join('inc%d' % i for i in range(len(dirs)))
    if mode == 'hdrdir':
        kw = 'includes=[%s]' % names
    elif mode == 'str':
        kw = 'includes=[%s]' % ', '.join(repr(d) for d in dirs)
    elif mode == 'optobj':
        kw = 'compile_options=[%s]' % ', '.join('opts.include_dir(inc%d)' % i
                                                for i in range(len(dirs)))
    elif mode == 'optraw':
        # alternately one word ('-I<dir>') and two words ('-I', '<dir>')
        kw = 'compile_options=[%s]' % ', '.join(
            "'-I', %r" % (SRC_MARK + '/' + d) if i % 2 else repr('-I' + SRC_MARK + '/' + d)
            for i, d in enumerate(dirs))
    elif mode == 'global':
        L.append('global_options([%s], lang=%r)' % (
            ', '.join('opts.include_dir(inc%d)' % i for i in range(len(dirs))), lang))
        kw = None
    else:
        raise ValueError(mode)
    tids = sorted(st['tus'], key=int)
    libt = [t for t in tids if st['tus'][t].get('lib') and t != '0']
    exet = [t for t in tids if t not in libt]
    extra = (', ' + kw) if kw else ''
    exe_extra = extra
    if st.get('pch'):
        if st['pch']['form'] == 'object':
            L.append('pch = precompiled_header(file=%r%s)' % (
                st['pch']['file'], extra.replace('compile_options=', 'options=')))
            exe_extra = extra + ', pch=pch'
        else:
            exe_extra = extra + ', pch=%r' % st['pch']['file']
    if libt:
        L.append("core = static_library(%r, files=[%s]%s)" % (
            lib_name(st),
            ', '.join(repr(st['tus'][t]['file']) for t in libt), extra))
        L.append("prog = executable(%r, files=[%s], libs=[core]%s)" % (
            exe_name(st),
            ', '.join(repr(st['tus'][t]['file']) for t in exet), exe_extra))
    else:
        L.append("prog = executable(%r, files=[%s]%s)" % (
            exe_name(st),
            ', '.join(repr(st['tus'][t]['file']) for t in exet), exe_extra))
    L.append('default(prog)')
    return '\n'.join(L) + '\n'


def render(st):
    files = {'build.bfg': render_bfg(st)}
    for d in st['incdirs']:
        files[d] = None
    for hid in st['headers']:
        files[hdr_path(st, hid)] = render_header(st, hid)
    for tid in st['tus']:
        files[st['tus'][tid]['file']] = render_tu(st, tid)
    if st.get('pch'):
        files[st['pch']['file']] = render_pch(st)
    return files


# --------------------------------------------------------------------------
# edits

KINDS = ['mod_pch', 'mod_header', 'mod_source', 'add_header', 'uninclude', 'rm_header', 'del_header',
         'rename_header', 'move_header', 'noop', 'clean', 'add_source', 'rename_source',
         'del_source']


def apply(st, op):
    """-> (new state, info) where info = {'renames': [(old, new)], 'edited': relpath|None}.
    Raises ValueError when the op is not applicable (a corrupt replay)."""
    st = copy.deepcopy(st)
    k = op['op']
    info = {'renames': [], 'edited': None}
    H, T = st['headers'], st['tus']
    if k == 'mod_header':
        if H[op['h']]['base'] == op['base']:
            raise ValueError('no change')
        H[op['h']]['base'] = op['base']
        info['edited'] = hdr_path(st, op['h'])
    elif k == 'mod_pch':
        if not st.get('pch') or st['pch']['base'] == op['base']:
            raise ValueError('no change')
        st['pch']['base'] = op['base']
        info['edited'] = st['pch']['file']
    elif k == 'mod_source':
        if T[op['t']]['base'] == op['base']:
            raise ValueError('no change')
        T[op['t']]['base'] = op['base']
        info['edited'] = T[op['t']]['file']
    elif k == 'add_header':
        if op['h'] in H:
            raise ValueError('exists')
        H[op['h']] = {'name': op['name'], 'plain': op['plain'], 'dir': op['dir'],
                      'base': op['base'], 'inc': [list(x) for x in op['inc']]}
        kind, tgt = op['into']
        if kind == 'p':
            st['pch']['inc'].append([op['h'], op['coef']])
        else:
            (H if kind == 'h' else T)[tgt]['inc'].append([op['h'], op['coef']])
        info['edited'] = hdr_path(st, op['h'])
    elif k in ('uninclude', 'del_header'):
        hid = op['h']
        for x in list(H.values()) + list(T.values()) + ([st['pch']] if st.get('pch') else []):
            x['inc'] = [[d, c] for d, c in x['inc'] if d != hid]
        info['edited'] = hdr_path(st, hid)
        if k == 'del_header':
            del H[hid]
        else:
            H[hid]['orphan'] = True
    elif k == 'rm_header':
        hs, ts = includers(st, op['h'])
        if hs or ts:
            raise ValueError('still included')
        info['edited'] = hdr_path(st, op['h'])
        del H[op['h']]
    elif k == 'rename_header':
        old = hdr_path(st, op['h'])
        H[op['h']]['name'] = op['name']
        H[op['h']]['plain'] = op['plain']
        if 'dir' in op:
            H[op['h']]['dir'] = op['dir']
        if op.get('base') is not None:
            H[op['h']]['base'] = op['base']
        info['renames'].append((old, hdr_path(st, op['h'])))
        info['edited'] = old
    elif k == 'move_header':
        old = hdr_path(st, op['h'])
        H[op['h']]['dir'] = op['dir']
        info['renames'].append((old, hdr_path(st, op['h'])))
        info['edited'] = old
    elif k == 'break_tu':
        # work in progress: a new header, included by one TU that does not compile yet
        if op['h'] in H or st.get('broken') is not None:
            raise ValueError('exists')
        H[op['h']] = {'name': op['name'], 'plain': op['plain'], 'dir': op['dir'],
                      'base': op['base'], 'inc': []}
        T[op['t']]['inc'].append([op['h'], op['coef']])
        st['broken'] = op['t']
        info['edited'] = T[op['t']]['file']
    elif k == 'unbreak_tu':
        # the work is abandoned: include and header go away again, the TU is as it was
        hid = op['h']
        if st.get('broken') is None:
            raise ValueError('not broken')
        for x in list(H.values()) + list(T.values()):
            x['inc'] = [[d, c] for d, c in x['inc'] if d != hid]
        info['edited'] = hdr_path(st, hid)
        del H[hid]
        del st['broken']
    elif k == 'break_header':
        # a header saved with a mistake in it; the sources that include it are not touched
        if H[op['h']].get('broken'):
            raise ValueError('already broken')
        H[op['h']]['broken'] = True
        info['edited'] = hdr_path(st, op['h'])
    elif k == 'fix_header':
        # ... and repaired, with new contents
        if not H[op['h']].get('broken') or H[op['h']]['base'] == op['base']:
            raise ValueError('not broken')
        del H[op['h']]['broken']
        H[op['h']]['base'] = op['base']
        info['edited'] = hdr_path(st, op['h'])
    elif k in ('noop', 'clean'):
        pass
    elif k == 'add_source':
        if op['t'] in T:
            raise ValueError('exists')
        T[op['t']] = {'file': op['file'], 'base': op['base'],
                      'inc': [list(x) for x in op['inc']], 'lib': bool(op.get('lib'))}
        if op.get('pch') and st.get('pch') and not op.get('lib'):
            T[op['t']]['pch'] = op['pch']
        info['edited'] = op['file']
    elif k == 'rename_source':
        old = T[op['t']]['file']
        T[op['t']]['file'] = op['file']
        if op.get('base') is not None:
            T[op['t']]['base'] = op['base']
        info['renames'].append((old, op['file']))
        info['edited'] = old
    elif k == 'del_source':
        if op['t'] == '0':
            raise ValueError('main')
        info['edited'] = T[op['t']]['file']
        del T[op['t']]
    else:
        raise ValueError('unknown op ' + k)
    return st, info


def file_ops(before, after, renames):
    """Tree operations turning render `before` into render `after`.
    -> (ops, written) ; ops = [('rename', a, b) | ('write', p, content) | ('remove', p)],
    written = files whose *content* is new (a pure rename is not)."""
    ops = []
    before = dict(before)
    written = []
    for a, b in renames:
        ops.append(('rename', a, b))
        before[b] = before.pop(a)
    for p in sorted(after):
        if after[p] is None:
            continue
        if before.get(p) != after[p]:
            ops.append(('write', p, after[p]))
            written.append(p)
    for p in sorted(before):
        if p not in after and before[p] is not None:
            ops.append(('remove', p))
    return ops, written


def must_recompile(st_after, written):
    """TUs of the new state that include (transitively) or are a file with new content."""
    w = set(written)
    out = [tid for tid in sorted(st_after['tus'], key=int)
           if w & set(tu_closure_files(st_after, tid))]
    if w & set(pch_files(st_after)):
        out.append('pch')       # the precompiled header itself
    return out


# --------------------------------------------------------------------------
# names

def name_chars(relpath):
    return ''.join(sorted({c for c in relpath if c in SPECIALS and c != '-'} |
                          ({'-'} if relpath.startswith('-') or '/-' in relpath else set())))


def gen_name(rng, stem, p_special):
    """-> (name, plain) for a header whose unique stem is e.g. 'h7' or 'h7r2'."""
    plain = stem + '.h'
    if rng.random() >= p_special:
        if rng.random() < 0.15:
            return 'sub/' + plain, 'sub/' + plain
        return plain, plain
    r = rng.random()
    pool = SPECIALS_COMMON if r < 0.55 else WS_SPECIALS if r < 0.7 else SPECIALS
    c = rng.choice(pool)
    d = rng.choice(pool)
    shape = rng.choice(['%(s)s%(c)sx.h', '%(s)s%(c)sx.h', '%(c)s%(s)s.h', '%(s)s%(c)s.h',
                        # the same character twice: adjacent, separated, both
                        '%(s)s%(c)s%(c)sx.h', '%(s)s%(c)sx%(c)sy.h', '%(s)s%(c)s%(c)sx%(c)s.h',
                        's%(c)sd%(c)s/%(s)s.h',
                        '%(s)s%(c)s%(d)sy.h', '%(s)s%(c)sy%(d)sz.h', '%(s)s.h%(c)s',
                        's%(c)sd/%(s)s.h', 'sub/%(s)s%(c)sw.h', 'a %(c)s/%(s)s%(d)s.h',
                        '%(s)s %(c)s.h'])
    name = shape % {'s': stem, 'c': c, 'd': d}
    if name.startswith(('./', '../')) or name.endswith('/') or '//' in name:
        return plain, plain
    comps = name.split('/')
    if any(x in ('', '.', '..') for x in comps):
        return plain, plain
    return name, plain


# --------------------------------------------------------------------------
# directed projects: every special character twice in one header name

REPEAT_QUICK = [' $#', '%&(', '+,@', '~)', '=']
REPEAT_ALL = [' $#', '%&(', '+,@', '~*?', '[]:', '!{}', ';|<', '>^`', "')", '=']


def repeated_names(stem, c):
    """(adjacent, separated) header names holding the character twice."""
    return '%s%s%sm.h' % (stem, c, c), '%s%sm%sk.h' % (stem, c, c)


def odd_space_names(stem, c):
    """(in the file name, in a header sub-directory) names holding the character once."""
    return '%s%sm.h' % (stem, c), 'su%sb/%s.h' % (c, stem)


WS_QUICK = ['\u00a0\u3000', '\u2003\u2028', '\u0085\x0b', '\x0c\x1f']


def directed_repeat(lang, chars, incmode='hdrdir', names=repeated_names):
    """A two-TU project whose headers carry each character of `chars` twice (adjacent in one
    header, separated in another), and a history that makes each of them vanish: renamed
    (to another name of the same kind, includers updated) and later deleted in one step.
    main includes them directly, tu1 through a plain hub header."""
    ext = '.cpp' if lang == 'c++' else '.c'
    H = {}
    n = 0
    for c in chars:
        for form in (0, 1):
            n += 1
            H[str(n)] = {'name': names('h%d' % n, c)[form], 'plain': 'h%d.h' % n,
                         'dir': 0, 'base': 10 + n, 'inc': []}
    hub = str(n + 1)
    H[hub] = {'name': 'hub.h', 'plain': 'hub.h', 'dir': 0, 'base': 7,
              'inc': [[str(i), 1 + i % 5] for i in range(1, n + 1)]}
    st = {'lang': lang, 'incmode': incmode, 'incdirs': ['inc'], 'incdirs_plain': ['inc'],
          'headers': H,
          'tus': {'0': {'file': 'main' + ext, 'base': 1, 'lib': False,
                        'inc': [[str(i), 2 + i % 3] for i in range(1, n + 1)]},
                  '1': {'file': 'tu1' + ext, 'base': 2, 'lib': False, 'inc': [[hub, 3]]}}}
    hist = [{'op': 'mod_header', 'h': '1', 'base': 99}, {'op': 'noop'}]
    k = 0
    for c in chars:
        for form in (0, 1):
            k += 1
            new = names('h%dr' % k, c)[form]
            hist.append({'op': 'rename_header', 'h': str(k), 'name': new,
                         'plain': 'h%dr.h' % k})
    hist.append({'op': 'noop'})
    for i in range(1, n + 1):
        hist.append({'op': 'del_header', 'h': str(i)})
    hist += [{'op': 'noop'}, {'op': 'clean'}]
    return st, hist


# --------------------------------------------------------------------------
# special characters in the path of the OBJECT files: source file names, source
# sub-directories, target names (<target>.int/<dir>/<source>.o and its .d)

# Not drawn for object paths: % * ? [ ] ( ) ' : and a leading ~/space (bfg9000's Makefiles
# cannot build them: C04's findings) and the comma (it splits the arguments of the
# $(call RULE_..._LINK,...) in the link recipe - same C04 finding, with a real linker even
# a lone comma fails)
OBJ_CHARS_QUICK = [' ', '#', '+', '@', '=', '$', '\u00a0', '\u3000']
OBJ_CHARS_ALL = [' ', '#', '+', '@', '=', '$', '&', '!', '{', '}', '~', '^', '<', '>',
                 ';', '|', '`'] + WS_SPECIALS


def directed_sibling(lang, incmode='hdrdir'):
    """A header WITHOUT an extension that sits next to a source file of the same name
    (inc/widget beside inc/widget.cpp, as in C++ libraries with standard-library-style header
    names): the rule-less target a depfile line makes of the header is exactly what a build tool's
    own 'X from X.<ext>' rules match."""
    ext = '.cpp' if lang == 'c++' else '.c'
    H = {'1': {'name': 'widget', 'plain': 'widget', 'dir': 0, 'base': 5, 'inc': []},
         '2': {'name': 'sub/gadget', 'plain': 'sub/gadget', 'dir': 0, 'base': 7, 'inc': [['1', 2]]}}
    T = {'0': {'file': 'main' + ext, 'base': 1, 'lib': False, 'inc': [['1', 3], ['2', 1]]},
         '1': {'file': 'inc/widget' + ext, 'base': 2, 'lib': False, 'inc': [['1', 4]]},
         '2': {'file': 'inc/sub/gadget' + ext, 'base': 3, 'lib': False, 'inc': [['2', 5]]}}
    st = {'lang': lang, 'incmode': incmode, 'incdirs': ['inc'], 'incdirs_plain': ['inc'],
          'headers': H, 'tus': T, 'work_in_progress': False}
    hist = [{'op': 'mod_source', 't': '1', 'base': 12}, {'op': 'noop'},
            {'op': 'mod_header', 'h': '1', 'base': 6}, {'op': 'noop'},
            {'op': 'mod_source', 't': '2', 'base': 13}, {'op': 'mod_source', 't': '1', 'base': 14},
            {'op': 'noop'}, {'op': 'clean'}]
    return st, hist


def directed_objpath(lang, c, incmode='hdrdir'):
    """Four TUs whose objects differ in where the character sits: main (plain, in the
    executable), s<c>d/tu1 (source sub-directory), tu<c>2 (source file name), tul (plain
    source in the static library co<c>re).  Plain header names; every TU reaches h1 through
    h2, so one header edit must recompile all four."""
    ext = '.cpp' if lang == 'c++' else '.c'
    H = {'1': {'name': 'h1.h', 'plain': 'h1.h', 'dir': 0, 'base': 5, 'inc': []},
         '2': {'name': 'h2.h', 'plain': 'h2.h', 'dir': 0, 'base': 7, 'inc': [['1', 2]]},
         '3': {'name': 'h3.h', 'plain': 'h3.h', 'dir': 0, 'base': 9, 'inc': []}}
    T = {'0': {'file': 'main' + ext, 'base': 1, 'lib': False, 'inc': [['2', 3], ['3', 1]]},
         '1': {'file': 's%sd/tu1%s' % (c, ext), 'file_plain': 'sd/tu1' + ext, 'base': 2,
               'lib': False, 'inc': [['2', 4], ['3', 2]]},
         '2': {'file': 'tu%s2%s' % (c, ext), 'file_plain': 'tu2' + ext, 'base': 3,
               'lib': False, 'inc': [['2', 5], ['3', 3]]},
         '3': {'file': 'tul' + ext, 'base': 4, 'lib': True, 'inc': [['2', 6], ['3', 4]]}}
    st = {'lang': lang, 'incmode': incmode, 'incdirs': ['inc'], 'incdirs_plain': ['inc'],
          'headers': H, 'tus': T, 'lib_name': 'co%sre' % c}
    hist = [{'op': 'mod_header', 'h': '1', 'base': 6}, {'op': 'noop'},
            {'op': 'rename_header', 'h': '2', 'name': 'h2r.h', 'plain': 'h2r.h', 'base': 8},
            {'op': 'del_header', 'h': '3'}, {'op': 'mod_header', 'h': '1', 'base': 11},
            {'op': 'noop'}, {'op': 'clean'}]
    return st, hist


def add_objnames(rng, st, chars):
    """Give some sources, source directories and the targets of a generated project names
    with special characters (plain fallbacks are kept for what calibration refuses)."""
    ext = src_ext(st)
    for tid, t in st['tus'].items():
        if rng.random() < 0.5:
            c = rng.choice(chars)
            d = rng.choice(chars)
            stem = 'main' if tid == '0' else 'tu' + tid
            t['file_plain'] = t['file']
            t['file'] = rng.choice(['%(s)s%(c)sx', '%(s)s%(c)s%(d)sx', 'a%(c)sb/%(s)s',
                                    'a%(c)sb/%(s)s%(d)sy', '%(s)s%(c)sx%(c)sy']) % {
                's': stem, 'c': c, 'd': d} + ext
    if rng.random() < 0.6:
        st['exe_name'] = 'pr%sog' % rng.choice(chars)
    if any(t.get('lib') for t in st['tus'].values()) and rng.random() < 0.6:
        st['lib_name'] = 'co%sre' % rng.choice(chars)
    return st


# --------------------------------------------------------------------------
# generation

def gen_state(rng, lang, p_special, special_incdir):
    ntu = rng.randint(3, 10)
    nh = rng.randint(3, 12)
    st = {'lang': lang, 'incmode': rng.choice(INCMODES), 'incdirs': ['inc'],
          'incdirs_plain': ['inc'], 'headers': {}, 'tus': {}}
    if special_incdir:
        st['incdirs'] = [rng.choice(SPECIAL_INCDIRS)]
    elif st['incmode'] != 'optraw' and rng.random() < 0.3:
        # the include directories named by their absolute paths (they still are the project's)
        st['incabs'] = True
    if rng.random() < 0.5:
        st['incdirs'].append('inc2' if rng.random() < 0.6 else rng.choice(
            [d for d in SPECIAL_INCDIRS if d not in st['incdirs']]))
        st['incdirs_plain'].append('inc2')
    for i in range(1, nh + 1):
        hid = str(i)
        name, plain = gen_name(rng, 'h%d' % i, p_special)
        inc = []
        cands = [k for k in st['headers'] if depth(st, k) <= 3]
        rng.shuffle(cands)
        for k in cands[:rng.choice([0, 1, 1, 2, 2, 3])]:
            inc.append([k, rng.randint(1, 9)])
        st['headers'][hid] = {'name': name, 'plain': plain,
                              'dir': rng.randrange(len(st['incdirs'])),
                              'base': rng.randint(1, 999), 'inc': inc}
    ext = src_ext(st)
    use_lib = rng.random() < 0.35 and ntu >= 3
    hids = list(st['headers'])
    # prefer deep headers so that most TUs see some header only transitively
    deep = sorted(hids, key=lambda k: -depth(st, k))
    for i in range(ntu):
        tid = str(i)
        k = rng.choice([1, 1, 2, 2, 3])
        inc = []
        for h in ([rng.choice(deep[:max(2, len(deep) // 2)])] + rng.sample(hids, len(hids)))[:k + 1]:
            if all(h != d for d, c in inc) and len(inc) < k:
                inc.append([h, rng.randint(1, 9)])
        fname = ('main' if i == 0 else 'tu%d' % i) + ext
        if i and rng.random() < 0.3:
            fname = 'src/' + fname
        st['tus'][tid] = {'file': fname, 'base': rng.randint(1, 999), 'inc': inc,
                          'lib': bool(use_lib and i and rng.random() < 0.5)}
    if use_lib and not any(t['lib'] for t in st['tus'].values()):
        st['tus'][str(ntu - 1)]['lib'] = True
    return st


def add_pch(rng, st, form, p_special):
    """Give the executable's TUs a precompiled header whose includes are one or two new
    headers nobody else includes (reachable only through the PCH) plus maybe a shared one.
    form 'string': pch='pre.h' on a single-source executable (the other TUs move into the
    static library); form 'object': one precompiled_header() object for >= 2 TUs."""
    T, H = st['tus'], st['headers']
    tids = sorted(T, key=int)
    if form == 'string':
        for t in tids[1:]:
            T[t]['lib'] = True
    else:
        T[tids[1]]['lib'] = False
    nxt = max(int(h) for h in H) + 1
    inner = []
    for k in range(rng.choice([1, 2, 2])):
        hid = str(nxt + k)
        name, plain = gen_name(rng, 'h' + hid, p_special)
        H[hid] = {'name': name, 'plain': plain, 'dir': rng.randrange(len(st['incdirs'])),
                  'base': rng.randint(1, 999), 'inc': []}
        inner.append(hid)
    if len(inner) == 2 and rng.random() < 0.6:
        H[inner[0]]['inc'].append([inner[1], rng.randint(1, 9)])     # a chain behind the PCH
        pinc = [[inner[0], rng.randint(1, 9)]]
    else:
        pinc = [[h, rng.randint(1, 9)] for h in inner]
    shared = [h for h in H if h not in inner and depth(st, h) <= 3]
    if shared and rng.random() < 0.6:
        pinc.append([rng.choice(sorted(shared, key=int)), rng.randint(1, 9)])
    # bfg9000 takes the language of a PCH from its suffix
    st['pch'] = {'file': 'pre.hpp' if _cxx(st) else 'pre.h', 'form': form, 'base': rng.randint(1, 999), 'inc': pinc}
    for t in tids:
        if not T[t]['lib']:
            T[t]['pch'] = rng.randint(1, 9)
    return st


def strip_pch(st, hist):
    """The same case without the precompiled header (when the tool chain cannot do it)."""
    st = copy.deepcopy(st)
    st['pch'] = None
    for t in st['tus'].values():
        t.pop('pch', None)
    out = []
    for op in hist:
        if op['op'] == 'mod_pch' or (op['op'] == 'add_header' and op['into'][0] == 'p'):
            continue
        op = dict(op)
        op.pop('pch', None)
        out.append(op)
    return st, out


def _new_base(rng, old):
    while True:
        b = rng.randint(1, 999)
        if b != old:
            return b


def gen_op(rng, st, kind, counters, p_special, allow_regen):
    """One applicable op of the given kind, or None."""
    H, T = st['headers'], st['tus']
    hids = sorted(H, key=int)
    live = [h for h in hids if any(includers(st, h))]
    if kind == 'mod_header':
        # prefer a header that some TU sees only transitively
        cands = live or hids
        if not cands:
            return None
        trans = [h for h in cands if includers(st, h)[0]]
        h = rng.choice(trans if trans and rng.random() < 0.7 else cands)
        return {'op': kind, 'h': h, 'base': _new_base(rng, H[h]['base'])}
    if kind == 'mod_pch':
        if not st.get('pch'):
            return None
        return {'op': kind, 'base': _new_base(rng, st['pch']['base'])}
    if kind == 'mod_pch_inner':
        cands = only_through_pch(st)
        if not cands:
            return None
        h = rng.choice(cands)
        return {'op': 'mod_header', 'h': h, 'base': _new_base(rng, H[h]['base'])}
    if kind == 'mod_source':
        t = rng.choice(sorted(T, key=int))
        return {'op': kind, 't': t, 'base': _new_base(rng, T[t]['base'])}
    if kind == 'add_header':
        counters['h'] += 1
        hid = str(counters['h'])
        name, plain = gen_name(rng, 'h' + hid, p_special)
        # includer: a TU, or a header; the include DAG must stay acyclic and <= 4 deep
        tids = sorted(T, key=int)
        for attempt in range(6):
            if st.get('pch') and attempt == 0 and rng.random() < 0.25:
                into = ['p', None]
                cands = list(hids)
            elif hids and rng.random() < 0.55 and attempt < 4:
                into = ['h', rng.choice(hids)]
                cands = [h for h in hids if not reaches(st, h, into[1])]
            else:
                into = ['t', rng.choice(tids)]
                cands = list(hids)
            rng.shuffle(cands)
            inc = [[h, rng.randint(1, 9)] for h in cands[:rng.choice([0, 0, 1, 2])]]
            if attempt >= 3:
                inc = []
            trial = {'op': kind, 'h': hid, 'name': name, 'plain': plain, 'dir': 0, 'base': 1,
                     'inc': inc, 'into': into, 'coef': 1}
            t2, _ = apply(st, trial)
            if all(depth(t2, h) <= 4 for h in t2['headers']):
                break
        else:
            return None
        return {'op': kind, 'h': hid, 'name': name, 'plain': plain,
                'dir': rng.randrange(len(st['incdirs'])), 'base': rng.randint(1, 999),
                'inc': inc, 'into': into, 'coef': rng.randint(1, 9)}
    if kind in ('uninclude', 'del_header'):
        cands = [h for h in live if h not in only_through_pch(st)]
        if len(live) <= 1 or not cands:
            return None
        return {'op': kind, 'h': rng.choice(cands)}
    if kind == 'rm_header':
        orphans = [h for h in hids if not any(includers(st, h))]
        if not orphans:
            return None
        pref = [h for h in orphans if H[h].get('orphan')]
        return {'op': kind, 'h': rng.choice(pref or orphans)}
    if kind == 'rename_header':
        if not live:
            return None
        h = rng.choice(live)
        counters['r'] += 1
        name, plain = gen_name(rng, 'h%sr%d' % (h, counters['r']), p_special)
        op = {'op': kind, 'h': h, 'name': name, 'plain': plain}
        if len(st['incdirs']) > 1 and rng.random() < 0.3:
            op['dir'] = 1 - H[h]['dir']
        if rng.random() < 0.5:
            op['base'] = _new_base(rng, H[h]['base'])
        return op
    if kind == 'move_header':
        if len(st['incdirs']) < 2 or not live:
            return None
        h = rng.choice(live)
        return {'op': kind, 'h': h, 'dir': 1 - H[h]['dir']}
    if kind in ('noop', 'clean'):
        return {'op': kind}
    if not allow_regen:
        return None
    if kind == 'add_source':
        counters['t'] += 1
        tid = str(counters['t'])
        inc = [[h, rng.randint(1, 9)] for h in rng.sample(hids, min(len(hids), rng.randint(0, 2)))
               if depth(st, h) <= 4]
        op = {'op': kind, 't': tid, 'file': 'tu%s%s' % (tid, src_ext(st)),
              'base': rng.randint(1, 999), 'inc': inc,
              'lib': bool(any(t.get('lib') for t in T.values()) and rng.random() < 0.5)}
        if st.get('pch'):
            if st['pch']['form'] == 'string':
                op['lib'] = True        # pch='file' wants a single-source executable
            elif not op['lib']:
                op['pch'] = rng.randint(1, 9)
        return op
    if kind == 'rename_source':
        cands = [t for t in sorted(T, key=int)]
        t = rng.choice(cands)
        counters['r'] += 1
        op = {'op': kind, 't': t, 'file': 'ren%s_%d%s' % (t, counters['r'], src_ext(st))}
        if rng.random() < 0.6:
            op['base'] = _new_base(rng, T[t]['base'])      # renamed and edited
        return op
    if kind == 'del_source':
        cands = [t for t in sorted(T, key=int) if t != '0']
        libs = [t for t in cands if T[t].get('lib')]
        # keep at least one member in the library and two TUs over all
        cands = [t for t in cands if not (T[t].get('lib') and len(libs) == 1)]
        if st.get('pch') and st['pch']['form'] == 'object':
            users = [t for t in cands if T[t].get('pch')]
            if len(pch_users(st)) <= 2:
                cands = [t for t in cands if t not in users]
        if len(T) <= 2 or not cands:
            return None
        return {'op': kind, 't': rng.choice(cands)}
    raise ValueError(kind)


WEIGHTS = [('mod_pch', 2), ('mod_pch_inner', 2), ('mod_header', 5), ('mod_source', 2), ('add_header', 4), ('del_header', 3),
           ('uninclude', 2), ('rm_header', 1), ('rename_header', 4), ('move_header', 3),
           ('noop', 3), ('clean', 1), ('add_source', 1), ('rename_source', 1),
           ('del_source', 1)]


def gen_history(rng, st, n, p_special, allow_regen=True):
    counters = {'h': max([int(h) for h in st['headers']] + [0]),
                't': max(int(t) for t in st['tus']), 'r': 0}
    # every history holds these; the rest is weighted
    plan = ['mod_header', 'noop', 'add_header', rng.choice(['del_header', 'uninclude']),
            'rename_header', 'mod_header']
    if st.get('pch'):
        plan = ['mod_pch', 'mod_pch_inner'] + plan[:-1]
    kinds = [k for k, w in WEIGHTS for _ in range(w)]
    while len(plan) < n - 1:
        plan.append(rng.choice(kinds))
    plan = plan[:max(n - 1, 0)]
    rng.shuffle(plan)
    # an 'uninclude' is followed (soon) by the deletion of that header
    hist = []
    cur = st
    pending_rm = None
    for kind in plan:
        if pending_rm is not None and rng.random() < 0.7:
            op = {'op': 'rm_header', 'h': pending_rm}
            pending_rm = None
            try:
                cur, _ = apply(cur, op)
                hist.append(op)
            except (ValueError, KeyError):
                pass
        op = gen_op(rng, cur, kind, counters, p_special, allow_regen)
        if op is None:
            op = gen_op(rng, cur, 'mod_header', counters, p_special, allow_regen) or {'op': 'noop'}
        try:
            cur2, _ = apply(cur, op)
        except (ValueError, KeyError):
            continue
        if any(depth(cur2, h) > 4 for h in cur2['headers']):
            continue
        cur = cur2
        hist.append(op)
        if kind in ('mod_pch', 'mod_pch_inner') and rng.random() < 0.5:
            hist.append({'op': 'noop'})
        if op['op'] == 'uninclude':
            pending_rm = op['h']
        if op['op'] in ('rm_header', 'del_header') and op['h'] == pending_rm:
            pending_rm = None
    if pending_rm is not None and pending_rm in cur['headers'] and \
       not any(includers(cur, pending_rm)):
        hist.append({'op': 'rm_header', 'h': pending_rm})
    if st.get('work_in_progress', True):
        # a build that FAILS (a new header plus a TU that does not compile yet), then the work
        # is thrown away again: the failed build must not leave anything behind that stops the
        # next one
        counters['h'] += 1
        tids = [t for t in sorted(cur['tus'], key=int)]
        op = {'op': 'break_tu', 't': rng.choice(tids), 'h': str(counters['h']),
              'name': 'wip%d.h' % counters['h'], 'plain': 'wip%d.h' % counters['h'],
              'dir': 0, 'base': rng.randint(1, 99), 'coef': rng.randint(1, 5)}
        at = rng.randrange(len(hist) + 1)
        # (applied on the state reached at that point: replay the prefix)
        try:
            pre = st
            for o in hist[:at]:
                pre, _ = apply(pre, o)
            mid, _ = apply(pre, op)
            post, _ = apply(mid, {'op': 'unbreak_tu', 'h': op['h']})
            for o in hist[at:]:
                post, _ = apply(post, o)
            hist[at:at] = [op, {'op': 'unbreak_tu', 'h': op['h']}]
        except (ValueError, KeyError):
            pass
    if st.get('work_in_progress', True):
        # the same with the mistake in a HEADER: the build fails, the old objects stay; the
        # repaired header (new contents) has to reach every object that includes it
        at = rng.randrange(len(hist) + 1)
        try:
            pre = st
            for o in hist[:at]:
                pre, _ = apply(pre, o)
            # (only in projects whose header names are all plain: what a special character in
            # ANY name of a depfile does to the rest of it is judged by the ordinary edits)
            if pre.get('broken') is None and \
               not any(name_chars(hdr_path(pre, x)) for x in pre['headers']):
                # (a header some translation unit really reaches - an includer that is itself
                # unreachable does not count - and not through the precompiled header only)
                cands = [h for h in sorted(pre['headers'], key=int)
                         if any(hdr_path(pre, h) in tu_closure_files(pre, t)
                                for t in pre['tus']) and
                         h not in only_through_pch(pre) and
                         not pre['headers'][h].get('orphan')]
                if cands:
                    hid = rng.choice(cands)
                    ops = [{'op': 'break_header', 'h': hid},
                           {'op': 'fix_header', 'h': hid,
                            'base': pre['headers'][hid]['base'] + rng.randint(1, 50)}]
                    post = pre
                    for o in ops + hist[at:]:
                        post, _ = apply(post, o)
                    hist[at:at] = ops
        except (ValueError, KeyError):
            pass
    hist.append({'op': 'clean'})
    return hist
