"""c18gen: dag specs extended with everything that puts files into (or keeps
them out of) the source distribution.

An *ext* is plain data:

    {'project': {'name': str|None, 'version': str|None} | None,
     'srcname': basename of the source directory,
     'scopes': ['', 'sub1/', 'sub1/inner/', ...]   (script directories; '' = main)
     'options': {scope: {'arg': name}}             (scopes having an options.bfg)
     'conf_args': [...],
     'files': {srcdir-relative path: content}      (beyond the dag's own files)
     'bld_files': {builddir-relative path: content} (exist before configure)
     'items': [item, ...]                          (in script order)
     'nodist_dag': [paths of dag-read files whose every reference gets dist=False]
     'layout': 'separate' (build dir next to the source dir, unrelated names) |
               'nested' (build dir = <src>/build, with sources named build_aux/..,
               buildtools/.., build.cfg, build-data/.. and a top-level ** search that
               excludes build/) | 'sibling-bld-prefix' (the build dir's path is a string
               prefix of the source dir's: proj / proj-1.0) | 'sibling-src-prefix'
               (src = proj, bld = proj-build)}

Items (all paths relative to item['scope']):

    file        fn(path[, args], dist=?)                       var
    bfile       generic_file(Path(path, Root.builddir))        (never distributed)
    dir         directory/header_directory/auto_file(path/, include=.., ...)  var
    find        find_files/find_paths(patterns, type, extra, exclude, filter,
                dist, cache, file_type)  [repeat: the same call twice]  var
    bfind       find_files(Path(pattern, Root.builddir))
    extra_dist  extra_dist(files=[...], dirs=[...])
    step        build_step(out, cmd=[vrec --id=N, vars..., opt], files=[strings],
                extra_deps=[strings])
    copy        copy_file(out, 'string')
    obj         object_file(name, file='string', includes=[vars / strings])
    link        executable/static_library(name, files=[obj vars + prebuilt], libs=[prebuilt])
    out         references to existing files OUTSIDE the source tree (directory @OUT@,
                substituted at materialisation; ext['outside'] = its files): absolute
                strings and Path(.., Root.absolute) in extra_deps= of build_step /
                object_file / executable / copy_file / command, extra_compile_deps=,
                alias() dependencies, build_step files=, generic_file('/abs') in a
                command line.  None of them belongs in the archive.
    tsrc        a source of a transpiled language (lex .l, Qt .qrc): handed as a plain
                string to object_file(file=) / executable(files=[..]) / static_library(
                files=[..]) (bfg9000 forwards it to generated_source itself), or, as a
                control, through generated_source() / source_file() / auto_file()
                explicitly (the latter two with and without dist=False)

`render(spec, ext)` gives the complete source tree; the dist expectations are
computed by `dist_model` with vf/ref/c18ref.py; the extra build steps by
`ExtModel` (a dag.Model with the ext's steps added).
"""
import os
import posixpath

from . import dag
from ..ref import c18ref

FILE_FNS = {
    # fn: (file name pattern, extra python args)
    'source_file': [('%s.c', ''), ('%s.cpp', ''), ('%s.src', ", lang='c'")],
    'header_file': [('%s.h', ''), ('%s.hpp', '')],
    'generic_file': [('%s.txt', ''), ('%s.dat', ''), ('%s', '')],
    'module_def_file': [('%s.def', '')],
    'auto_file': [('%s.c', ''), ('%s.h', ''), ('%s.bin', '')],
    'man_page': [('%s.1', ', compress=False'), ('%s.man', ', level=3, compress=False')],
    'object_file': [('%s.o', '')],
    'precompiled_header': [('%s.gch', '')],
    'executable': [('%s', '')],
    'static_library': [('lib%s.a', '')],
    'shared_library': [('lib%s.so', '')],
    'library': [('lib%s.a', '')],
}
LINKABLE_OBJ = ('object_file',)
LINKABLE_LIB = ('static_library', 'shared_library', 'library')

OUT = '@OUT@'      # placeholder for the absolute path of the outside directory
OUTSIDE_FILES = {'dep.txt': 'outside dep\n', 'dep2.txt': 'outside dep2\n',
                 'in.txt': 'outside input\n', 'c.txt': 'outside arg\n', 'd.h': '#define OUT\n'}

FLT_DEF = '''def c18flt(p):
    b = p.basename()
    if p.directory:
        return FindResult.exclude_recursive if 'prune' in b else FindResult.include
    if 'later' in b:
        return FindResult.not_now
    if 'omit' in b:
        return FindResult.exclude
    return FindResult.include
'''

STEMS = ['a', 'b', 'main', 'util', 'later_x', 'omit_y', 'skip_z', 'x_windows', 'y_darwin',
         'z_linux', 'posix', 'later_w', 'k9', 'skip_q']
EXTS = ['.c', '.c', '.h', '.txt', '.md', '.dat']
SUBDIRS = ['', '', '', 'n1/', 'n1/n2/', 'prune_d/', 'windows/', 'skipdir/', 'm_x/']


def _tree(rng, base, n=None):
    files = {}
    for _ in range(n or rng.randint(5, 13)):
        p = base + rng.choice(SUBDIRS) + rng.choice(STEMS) + rng.choice(EXTS)
        files[p] = 'c18 %s\n' % p
    if rng.random() < 0.3:
        p = base + rng.choice(['', 'n1/']) + 'bak.c~'
        files[p] = 'backup\n'
    return files


def _find_args(rng, dirtype=None):
    """-> dict(type, extra, exclude, filter, cache) for a find-like call.
    dirtype: None for find_files itself, 'f' / '*' for what header_directory /
    directory pass as type=."""
    a = {'type': None, 'extra': None, 'exclude': None, 'filter': None, 'cache': None}
    eff = dirtype
    if dirtype is None and rng.random() < 0.2:
        a['type'] = eff = 'f'
    if rng.random() < 0.45:
        a['extra'] = rng.choice([['*.h'], ['*.md'], ['*.h', '*.txt']])
    if rng.random() < 0.4:
        if eff == 'f':
            a['exclude'] = ['skip_*']
        elif eff == '*':
            a['exclude'] = rng.choice([['skip*'], ['skip_*']])
        else:
            a['exclude'] = rng.choice([['skip_*'], ['skipdir/'], ['skip_*', 'skipdir/']])
    r = rng.random()
    if r < 0.25:
        a['filter'] = 'custom'
    elif r < 0.45:
        a['filter'] = 'platform'
    if rng.random() < 0.25:
        a['cache'] = rng.choice([True, False])
    return a


def gen_ext(rng, spec, force=None):
    ext = {'project': None, 'srcname': 'src', 'scopes': [''], 'options': {}, 'conf_args': [],
           'files': {}, 'bld_files': {}, 'items': [], 'nodist_dag': []}
    r = rng.random()
    if r < 0.4:
        ext['project'] = {'name': rng.choice(['proj', 'my-proj', 'p_1', 'Pr0j.x']),
                          'version': rng.choice(['1.2', '0.1.0', '3'])}
    elif r < 0.6:
        ext['project'] = {'name': rng.choice(['proj', 'lib.x']), 'version': None}
    elif r < 0.7:
        ext['project'] = {'name': None, 'version': '2.0'}
    ext['srcname'] = rng.choice(['src', 'pkg-0.9', 'My_Proj'])
    ext['layout'] = rng.choice(['separate', 'nested', 'nested', 'sibling-bld-prefix',
                                'sibling-src-prefix'])

    # ---- scopes
    pool = rng.choice([[], ['sub1/'], ['sub1/', 'sub2/'], ['sub1/', 'sub1/inner/'],
                       ['sub1/', 'sub1/inner/', 'libs/zz/'], ['libs/zz/']])
    ext['scopes'] += pool
    if rng.random() < 0.75:
        ext['options'][''] = {'arg': 'c18-opt'}
        for sc in pool:
            if parent_scope(sc) in ext['options'] and rng.random() < 0.6:
                ext['options'][sc] = {'arg': 'c18-' + sc.strip('/').replace('/', '-')}
        if rng.random() < 0.5:
            ext['conf_args'] = ['--c18-opt=' + rng.choice(['v1', 'two words'])]

    counter = {'v': 0, 'id': 1000}

    def var():
        counter['v'] += 1
        return 'xv%d' % counter['v']

    def sid():
        counter['id'] += 1
        return counter['id']

    for sc in ext['scopes']:
        main = sc == ''
        items = []
        # ---- single file objects
        for _ in range(rng.randint(2, 6) if main else rng.randint(1, 4)):
            fn = rng.choice(sorted(FILE_FNS))
            pat, args = rng.choice(FILE_FNS[fn])
            v = var()
            path = 'xf/' + pat % ('f' + v[2:])
            dist = rng.random() >= 0.3
            ext['files'][sc + path] = 'c18 single %s\n' % path
            items.append({'k': 'file', 'scope': sc, 'fn': fn, 'path': path, 'args': args,
                          'dist': dist, 'var': v})
        if main and (ext['layout'] == 'nested' or rng.random() < 0.4):
            # names that merely *start* like the (nested) build directory `build`
            for fn, path in rng.sample([('source_file', 'build_aux/ver.c'),
                                        ('header_file', 'buildtools/t.h'),
                                        ('generic_file', 'build.cfg'),
                                        ('generic_file', 'build-data/d.txt'),
                                        ('auto_file', 'builder.c')], rng.randint(2, 5)):
                ext['files'][path] = 'c18 %s\n' % path
                items.append({'k': 'file', 'scope': sc, 'fn': fn, 'path': path, 'args': '',
                              'dist': True, 'var': var()})
            if ext['layout'] == 'nested':
                # a search over the whole source tree has to keep out of the build dir
                ext['files'].setdefault('build_aux/opts.cfg', 'c18 opts\n')
                ext['bld_files']['pregen/trap.cfg'] = 'lives in the build directory\n'
                items.append({'k': 'find', 'scope': sc, 'fn': 'find_files', 'dist': True,
                              'var': var(), 'repeat': False, 'file_type': None, 'type': None,
                              'extra': None, 'exclude': ['build/'], 'filter': None,
                              'cache': None, 'patterns': ['**/*.cfg']})
        if rng.random() < 0.3:
            ext['bld_files'].setdefault('pregen/g1.txt', 'pre-generated\n')
            items.append({'k': 'bfile', 'scope': sc, 'path': 'pregen/g1.txt', 'var': var(),
                          'fn': rng.choice(['generic_file', 'auto_file', 'source_file'])})
        # ---- directories
        for n in range(rng.randint(0, 2)):
            v = var()
            d = 'xd%s' % v[2:]
            fn = rng.choice(['directory', 'directory', 'header_directory', 'header_directory',
                             'auto_file', 'auto_file_lang'])
            it = {'k': 'dir', 'scope': sc, 'fn': fn, 'path': d, 'dist': rng.random() >= 0.3,
                  'var': v, 'include': None, 'type': None, 'extra': None, 'exclude': None,
                  'filter': None, 'cache': None}
            ext['files'].update(_tree(rng, sc + d + '/', rng.randint(3, 9)))
            if fn in ('directory', 'header_directory') and rng.random() < 0.75:
                dt = '*' if fn == 'directory' else 'f'
                it.update(_find_args(rng, dt))
                # (header_directory(include=...) raises AttributeError on a match that is
                # not a code file - `File` has no .lang -, so it only gets code globs)
                it['include'] = rng.choice([['*.h'], ['**/*.h'], ['*.h', '*.c'], ['**/*.[ch]'],
                                            ['n1/*.h']] + ([['*'], ['**/*.txt', '*.md']]
                                                           if fn == 'directory' else []))
            items.append(it)
        # ---- find_files / find_paths
        for n in range(rng.randint(0, 3) if main else rng.randint(0, 2)):
            v = var()
            d = 'xg%s' % v[2:]
            ext['files'].update(_tree(rng, sc + d + '/'))
            it = {'k': 'find', 'scope': sc, 'fn': rng.choice(['find_files', 'find_files',
                                                              'find_paths']),
                  'dist': rng.random() >= 0.3, 'var': v, 'repeat': rng.random() < 0.2,
                  'file_type': None}
            it.update(_find_args(rng))
            r = rng.random()
            if r < 0.35:
                pats = [d + '/' + rng.choice(['*.c', '*.[ch]', '?*.txt', '[!o]*.c', '*'])]
            elif r < 0.7:
                pats = [d + '/' + rng.choice(['**/*.c', '**/*.h', '**/n2/*.c', '**/*.[ch]'])]
            elif r < 0.8:
                pats = [d + '/*/*.c']
                it['extra'] = None
            elif r < 0.9:
                pats = [d + '/*.c', d + '/n1/*.h']
            else:
                # directories
                pats = [d + '/' + rng.choice(['*/', '**/'])]
                it['type'] = rng.choice([None, 'd'])
                it['extra'] = None
                it['exclude'] = rng.choice([None, ['skipdir/']]) if it['type'] is None else \
                    rng.choice([None, ['skip*']])
            it['patterns'] = pats
            if it['type'] == 'f' and it['exclude']:
                it['exclude'] = [g for g in it['exclude'] if not g.endswith('/')] or None
            if rng.random() < 0.2 and it['fn'] == 'find_files' and not pats[0].endswith('/'):
                it['file_type'] = rng.choice(['generic_file', 'source_file', 'header_file'])
            items.append(it)
        if main and rng.random() < 0.25:
            # a top-level pattern that also catches the dag's own sources
            items.append({'k': 'find', 'scope': sc, 'fn': 'find_files', 'dist': True,
                          'var': var(), 'repeat': False, 'file_type': None, 'type': None,
                          'extra': None, 'exclude': None, 'filter': None, 'cache': None,
                          'patterns': ['*.c']})
        if rng.random() < 0.3:
            ext['bld_files'].setdefault('pregen/g1.txt', 'pre-generated\n')
            ext['bld_files'].setdefault('pregen/g2.c', 'int g2;\n')
            items.append({'k': 'bfind', 'scope': sc, 'var': var(),
                          'pattern': rng.choice(['pregen/*.txt', 'pregen/*', 'pregen/**/*.c'])})
        # ---- extra_dist
        if rng.random() < 0.6:
            it = {'k': 'extra_dist', 'scope': sc, 'files': [], 'dirs': []}
            for j in range(rng.randint(0, 2)):
                p = rng.choice(['README', 'LICENSE.txt', 'xe/NEWS', 'xe/notes.md'])
                if p not in it['files']:
                    it['files'].append(p)
                    ext['files'][sc + p] = 'c18 extra %s\n' % p
            for j in range(rng.randint(0, 2)):
                d = 'xdoc%d' % j
                it['dirs'].append(d)
                for name in rng.sample(['index.md', 'api.txt', 'fig.png', 'old.txt~',
                                        'deep/more.md', 'deep/er/most.md'], rng.randint(1, 4)):
                    ext['files'][sc + d + '/' + name] = 'c18 doc %s\n' % name
            if it['files'] or it['dirs']:
                items.append(it)
        # ---- steps over the above
        fvars = [i for i in items if i['k'] == 'file' and i['dist']]
        gvars = [i for i in items if i['k'] == 'find' and i['dist'] and
                 not i['patterns'][0].endswith('/') and i['type'] != 'd']
        for n in range(rng.randint(1, 2)):
            i = sid()
            it = {'k': 'step', 'scope': sc, 'id': i, 'out': 'xs%d.out' % i,
                  'vars': [f['var'] for f in rng.sample(fvars, rng.randint(0, min(3, len(fvars))))],
                  'finds': [g['var'] for g in rng.sample(gvars, rng.randint(0, min(2, len(gvars))))],
                  'files_str': [], 'extra_str': [], 'opt': None}
            for key, pat in (('files_str', 'xf/in%d_%d.txt'), ('extra_str', 'xf/dep%d_%d.dat')):
                for j in range(rng.choice([0, 0, 1, 2])):
                    if key == 'extra_str' and not main:
                        # bfg9000 resolves extra_deps *strings* against the top source
                        # directory even inside a submodule (C19's business: the
                        # original build is already broken then), so only main has them
                        break
                    p = pat % (i, j)
                    ext['files'][sc + p] = 'c18 %s\n' % p
                    it[key].append(p)
            if '' in ext['options'] and rng.random() < 0.6:
                opts = [s for s in ext['options'] if s == '' or s == sc]
                it['opt'] = ext['options'][rng.choice(opts)]['arg']
            items.append(it)
        if rng.random() < 0.4:
            i = sid()
            p = 'xf/cp%d.txt' % i
            ext['files'][sc + p] = 'c18 %s\n' % p
            items.append({'k': 'copy', 'scope': sc, 'id': i, 'out': 'xc%d.out' % i, 'src_str': p,
                          'mode': rng.choice(['copy', 'symlink'])})
        if rng.random() < 0.5:
            i = sid()
            p = 'xf/k%d.c' % i
            ext['files'][sc + p] = dag.STUB_C
            hd = [d['var'] for d in items if d['k'] == 'dir' and d['dist'] and
                  d['fn'] in ('header_directory', 'auto_file_lang')]
            obj = {'k': 'obj', 'scope': sc, 'id': i, 'name': 'xo%d' % i, 'src_str': p,
                   'inc_vars': hd[:1] if rng.random() < 0.7 else [], 'inc_str': None}
            if rng.random() < 0.4:
                obj['inc_str'] = 'xinc'
                ext['files'][sc + 'xinc/q.h'] = '#define Q 1\n'
            items.append(obj)
            if rng.random() < 0.7:
                j = sid()
                items.append({'k': 'link', 'scope': sc, 'id': j,
                              'fn': rng.choice(['executable', 'static_library']),
                              'name': 'xe%d' % j, 'objs': [i],
                              'prebuilt': [f['var'] for f in fvars if f['fn'] in LINKABLE_OBJ][:2],
                              'libs': [f['var'] for f in fvars if f['fn'] in LINKABLE_LIB][:2]})
        # ---- transpiled sources (LEX / RCC are stubs in the environment)
        for n in range(rng.choice([0, 1, 1, 2]) if main else rng.choice([0, 0, 1])):
            i = sid()
            tex = rng.choice(['.l', '.l', '.qrc'])
            p = 'xf/t%d%s' % (i, tex)
            ext['files'][sc + p] = '%%\n%%\n' if tex == '.l' else '<RCC/>\n'
            how = rng.choice(['string', 'string', 'string', 'generated_source', 'source_file',
                              'auto_file'])
            it = {'k': 'tsrc', 'scope': sc, 'id': i, 'src': p, 'how': how, 'dist': True,
                  'into': 'object_file', 'name': 'xt%d' % i}
            if how == 'string':
                it['into'] = rng.choice(['object_file', 'executable', 'static_library'])
            elif how in ('source_file', 'auto_file') and rng.random() < 0.3:
                it['dist'] = False
            items.append(it)
        # ---- references to files outside the source tree
        if rng.random() < (0.7 if main else 0.35):
            ext['outside'] = OUTSIDE_FILES
            prev = None
            for form in rng.sample(['step', 'obj', 'exe', 'copy', 'cmd', 'alias'],
                                   rng.randint(1, 4)):
                i = sid()
                it = {'k': 'out', 'scope': sc, 'id': i, 'form': form, 'src': None,
                      'abs': rng.choice(['string', 'path']), 'target': prev}
                if form in ('obj', 'exe', 'copy'):
                    it['src'] = 'xf/out%d%s' % (i, '.txt' if form == 'copy' else '.c')
                    ext['files'][sc + it['src']] = dag.STUB_C if form != 'copy' else 'c18\n'
                if form == 'alias' and prev is None:
                    continue
                items.append(it)
                if form != 'alias':
                    prev = i
        ext['items'] += items
    # ---- junk nobody mentions
    for p in rng.sample(['.gitignore', 'NOTES.junk', 'xf/unref.c', 'xjunk/todo.txt',
                         'sub1/xf/unref.h', 'scratch.c.orig'], rng.randint(1, 4)):
        ext['files'].setdefault(p, 'junk %s\n' % p)

    # ---- dag-read files marked dist=False everywhere they are mentioned
    if rng.random() < 0.3:
        refs = dag_refs(spec)
        cands = sorted(p for p, rs in refs.items()
                       if rs <= {'source_file', 'header_file', 'generic_file'} and
                       any('%s(%r)' % (fn, p) in dag.render(spec)['build.bfg']
                           for fn in ('source_file', 'header_file', 'generic_file')))
        catchall = any(i['k'] == 'find' and i['patterns'] == ['*.c'] for i in ext['items'])
        cands = [p for p in cands if not (catchall and '/' not in p and p.endswith('.c'))]
        if cands:
            ext['nodist_dag'] = [rng.choice(cands)]
    if force:
        # a run-wide rotation of find-argument combinations that random drawing makes rare
        # (uncached searches with extra= / a not_now filter, with and without dist=False)
        for it in ext['items']:
            if it['k'] == 'find' and len(it['patterns']) == 1 and it['patterns'][0].startswith('xg'):
                it.update(force)
                break
    return ext


def parent_scope(sc):
    if sc == 'sub1/inner/':
        return 'sub1/'
    return ''


def dag_refs(spec):
    """{source path: set(reasons)} for every source-tree file a dag spec mentions."""
    refs = {}

    def add(p, reason):
        refs.setdefault(p, set()).add(reason)

    def ref_reason(p):
        ext = os.path.splitext(p)[1]
        return {'.c': 'source_file', '.h': 'header_file'}.get(ext, 'generic_file')

    def walk(v):
        if isinstance(v, list):
            if len(v) == 2 and v[0] == 'file' and isinstance(v[1], str):
                add(v[1], ref_reason(v[1]))
            else:
                for x in v:
                    walk(x)
        elif isinstance(v, dict):
            for k, x in v.items():
                if k == 'hdrs':
                    for h in x:
                        add(h, 'header_file')
                elif k == 'hdr' and isinstance(x, str):
                    add(x, 'header_file')          # precompiled_header(file=header_file(..))
                elif k == 'pch_str':
                    if x:
                        add(x, 'string:pch')
                elif k == 'srcs':
                    for s in x:
                        add(s, 'string:files')
                else:
                    walk(x)
    walk(spec['nodes'])
    # whatever else the dag model says a step reads (features added to dag.py later)
    for f in dag.Model(spec).source_files():
        if f[2:] not in refs:
            add(f[2:], 'dag:step-input')
    return refs


# --------------------------------------------------------------------------
# rendering

def _kw(it, pats_key=None):
    out = ''
    if it.get('type'):
        out += ', type=%r' % it['type']
    if it.get('extra'):
        out += ', extra=%r' % (it['extra'] if len(it['extra']) > 1 else it['extra'][0])
    if it.get('exclude'):
        out += ', exclude=%r' % (it['exclude'] if len(it['exclude']) > 1 else it['exclude'][0])
    if it.get('filter') == 'custom':
        out += ', filter=c18flt'
    elif it.get('filter') == 'platform':
        out += ', filter=filter_by_platform'
    if it.get('file_type'):
        out += ', file_type=%s' % it['file_type']
    if it.get('cache') is not None:
        out += ', cache=%r' % it['cache']
    if not it.get('dist', True):
        out += ', dist=False'
    return out


def render_item(it, stub='vrec'):
    k = it['k']
    L = []
    if k == 'file':
        L.append('%s = %s(%r%s%s)' % (it['var'], it['fn'], it['path'], it['args'],
                                      '' if it['dist'] else ', dist=False'))
    elif k == 'bfile':
        L.append('%s = %s(Path(%r, Root.builddir))' % (it['var'], it['fn'], it['path']))
    elif k == 'dir':
        fn = it['fn']
        if fn == 'auto_file':
            L.append('%s = auto_file(%r%s)' % (it['var'], it['path'] + '/',
                                               '' if it['dist'] else ', dist=False'))
        elif fn == 'auto_file_lang':
            L.append("%s = auto_file(%r, lang='c'%s)" % (it['var'], it['path'] + '/',
                                                         '' if it['dist'] else ', dist=False'))
        else:
            inc = ''
            if it['include']:
                inc = ', include=%r' % (it['include'] if len(it['include']) > 1
                                        else it['include'][0])
            L.append('%s = %s(%r%s%s)' % (it['var'], fn, it['path'], inc, _kw(it)))
    elif k == 'find':
        pats = it['patterns'] if len(it['patterns']) > 1 else it['patterns'][0]
        call = '%s(%r%s)' % (it['fn'], pats, _kw(it))
        L.append('%s = %s' % (it['var'], call))
        if it.get('repeat'):
            L.append('%s = %s' % (it['var'], call))
    elif k == 'bfind':
        L.append('%s = find_files(Path(%r, Root.builddir))' % (it['var'], it['pattern']))
    elif k == 'extra_dist':
        args = []
        if it['files']:
            args.append('files=%r' % it['files'])
        if it['dirs']:
            args.append('dirs=%r' % it['dirs'])
        L.append('extra_dist(%s)' % ', '.join(args))
    elif k == 'step':
        cmd = '[%r, %r' % (stub, '--id=%d' % it['id'])
        for v in it['vars']:
            cmd += ', ' + v
        if it['opt']:
            cmd += ", '--opt=' + str(argv.%s)" % it['opt'].replace('-', '_')
        cmd += ']'
        for g in it['finds']:
            cmd += ' + list(%s)' % g
        cmd += " + ['--touch', build_step.output, '--end']"
        extra = ''
        if it['files_str']:
            extra += ', files=%r' % it['files_str']
        if it['extra_str']:
            extra += ', extra_deps=%r' % it['extra_str']
        L.append('xn%d = build_step(%r, cmd=%s%s)' % (it['id'], it['out'], cmd, extra))
    elif k == 'copy':
        L.append('xn%d = copy_file(%r, %r, mode=%r)' % (it['id'], it['out'], it['src_str'],
                                                       it['mode']))
    elif k == 'obj':
        incs = list(it['inc_vars']) + ([repr(it['inc_str'])] if it['inc_str'] else [])
        inc = ', includes=[%s]' % ', '.join(incs) if incs else ''
        L.append('xn%d = object_file(%r, file=%r%s)' % (it['id'], it['name'], it['src_str'], inc))
    elif k == 'out':
        def ab(name):
            return repr(OUT + '/' + name) if it['abs'] == 'string' else \
                'Path(%r, Root.absolute)' % (OUT + '/' + name)
        i, form = it['id'], it['form']
        if form == 'step':
            L.append("xn%d = build_step('xq%d.out', cmd=[%r, '--id=%d', generic_file(%r), "
                     "'--touch', build_step.output, '--end'], files=[%r], extra_deps=[%s, %s])"
                     % (i, i, stub, i, OUT + '/c.txt', OUT + '/in.txt', ab('dep.txt'),
                        "Path(%r, Root.absolute)" % (OUT + '/dep2.txt')))
        elif form == 'obj':
            L.append('xn%d = object_file(%r, file=%r, extra_deps=[%s])'
                     % (i, 'xq%d' % i, it['src'], ab('d.h')))
        elif form == 'exe':
            L.append('xn%d = executable(%r, files=[%r], extra_compile_deps=[%s], extra_deps=[%s])'
                     % (i, 'xq%d' % i, it['src'], ab('dep2.txt'), ab('dep.txt')))
        elif form == 'copy':
            L.append("xn%d = copy_file('xq%d.out', %r, extra_deps=[%s])"
                     % (i, i, it['src'], ab('dep.txt')))
        elif form == 'cmd':
            L.append("xn%d = command('xq%d', cmd=[%r, '--id=%d'], extra_deps=[%s])"
                     % (i, i, stub, i, ab('dep.txt')))
        elif form == 'alias':
            L.append("xn%d = alias('xq%d', [xn%d, %s])" % (i, i, it['target'], ab('dep.txt')))
    elif k == 'tsrc':
        how = it['how']
        if how == 'string':
            src = repr(it['src'])
        elif how == 'generated_source':
            src = 'generated_source(%r)' % it['src']
        else:
            src = '%s(%r%s)' % (how, it['src'], '' if it['dist'] else ', dist=False')
        if it['into'] == 'object_file':
            L.append('xn%d = object_file(%r, file=%s)' % (it['id'], it['name'], src))
        else:
            L.append('xn%d = %s(%r, files=[%s])' % (it['id'], it['into'], it['name'], src))
    elif k == 'link':
        files = ['xn%d' % o for o in it['objs']] + list(it['prebuilt'])
        libs = ', libs=[%s]' % ', '.join(it['libs']) if it['libs'] else ''
        L.append('xn%d = %s(%r, files=[%s]%s)' % (it['id'], it['fn'], it['name'],
                                                 ', '.join(files), libs))
    return L


def children(ext, sc):
    return [s for s in ext['scopes'] if s and s != sc and parent_scope(s) == sc]


def render(spec, ext, stub='vrec'):
    files = dag.render(spec, stub)
    text = files['build.bfg']
    for p in ext.get('nodist_dag') or []:
        for fn in ('source_file', 'header_file', 'generic_file'):
            text = text.replace('%s(%r)' % (fn, p), '%s(%r, dist=False)' % (fn, p))
    files.update(ext['files'])
    for sc in ext['scopes']:
        L = []
        if sc == '' and ext['project'] is not None:
            args = []
            if ext['project']['name'] is not None:
                args.append(repr(ext['project']['name']))
            if ext['project']['version'] is not None:
                args.append('version=%r' % ext['project']['version'])
            L.append('project(%s)' % ', '.join(args))
        its = [i for i in ext['items'] if i['scope'] == sc]
        if any(i.get('filter') == 'custom' for i in its):
            L.append(FLT_DEF)
        outs = []
        for it in its:
            L += render_item(it, stub)
            if it['k'] in ('step', 'copy', 'obj', 'link', 'tsrc', 'out'):
                outs.append('xn%d' % it['id'])
        L.append('c18outs = [%s]' % ', '.join(outs))
        for n, ch in enumerate(children(ext, sc)):
            rel = ch[len(sc):].rstrip('/')
            L.append('c18sm%d = submodule(%r)' % (n, rel))
            L.append("c18outs = c18outs + c18sm%d['c18outs']" % n)
        if sc == '':
            body = text + '\n'.join(L) + '\n' + "alias('c18all', c18outs)\n"
            files['build.bfg'] = body
        else:
            L.append('export(c18outs=c18outs)')
            files[sc + 'build.bfg'] = '# c18 submodule\n' + '\n'.join(L) + '\n'
    for sc, o in ext['options'].items():
        L = ['argument(%r, default=%r)' % (o['arg'], 'dflt-' + o['arg'])]
        for ch in children(ext, sc):
            if ch in ext['options']:
                L.append('submodule(%r)' % ch[len(sc):].rstrip('/'))
        files[sc + 'options.bfg'] = '\n'.join(L) + '\n'
    return files


def build_dir(ext, src):
    """Where the build directory goes for a source directory `src`."""
    layout = ext.get('layout', 'separate')
    if layout == 'nested':
        return posixpath.join(src, 'build')
    if layout == 'sibling-bld-prefix':
        return src[:-2] if len(posixpath.basename(src)) > 2 else src[:-1]
    if layout == 'sibling-src-prefix':
        return src + '-build'
    return posixpath.join(posixpath.dirname(src), 'bld')


def top_dir(ext):
    pr = ext['project'] or {}
    name = pr.get('name') if pr.get('name') is not None else ext['srcname']
    if pr.get('version'):
        name += '-' + pr['version']
    return name


# --------------------------------------------------------------------------
# the models

def dist_model(spec, ext, tree):
    """tree: the rendered files dict.  -> c18ref.DistModel.finish(...) tuple"""
    files = sorted(tree)
    m = c18ref.DistModel()
    m.require('build.bfg', 'script:build.bfg')
    for sc in ext['scopes']:
        if sc:
            m.require(sc + 'build.bfg', 'script:submodule-build')
    for sc in ext['options']:
        m.require(sc + 'options.bfg', 'script:options.bfg' if sc == '' else
                  'script:submodule-options')
    nod = set(ext.get('nodist_dag') or [])
    for p, reasons in dag_refs(spec).items():
        for r in reasons:
            m.add(p, r, p not in nod)
    for nd in spec['nodes']:
        # includes=[header_file(h)] mentions h's directory (as a distributed
        # Directory object, whatever h's own marker says)
        for h in nd.get('hdrs') or []:
            m.dirs_ok.add(posixpath.dirname(h) or '.')

    def find(it, sc, patterns, type_, who):
        fm = c18ref.FindModel(files, [sc + p for p in patterns], type_, it.get('extra'),
                              it.get('exclude'), it.get('filter'))
        for p, why in fm.required.items():
            m.add(p, '%s:%s' % (who, why), it['dist'])
        if it['dist']:
            m.opt |= fm.optional
        for d in fm.found_dirs:
            m.add_dir(d, who + ':found-dir', it['dist'])
        # every directory below a distributed search's base may show up
        if it['dist']:
            for base, glob, wd in fm.patterns:
                b = '/'.join(base)
                for d in fm.dirs:
                    if d == b or d.startswith(b + '/'):
                        m.dirs_ok.add(d)
        return fm

    for it in ext['items']:
        sc, k = it['scope'], it['k']
        if k == 'file':
            m.add(sc + it['path'], it['fn'], it['dist'])
        elif k == 'dir':
            fn = {'auto_file_lang': 'auto_file'}.get(it['fn'], it['fn'])
            m.add_dir(sc + it['path'], fn, it['dist'])
            if it['include']:
                find(it, sc, [it['path'] + '/' + g for g in it['include']],
                     '*' if fn == 'directory' else 'f', fn)
        elif k == 'find':
            find(it, sc, it['patterns'], it['type'], it['fn'])
        elif k == 'extra_dist':
            for p in it['files']:
                m.require(sc + p, 'extra_dist:files')
            for d in it['dirs']:
                m.add_dir(sc + d, 'extra_dist:dirs', True)
                fake = {'extra': None, 'exclude': None, 'filter': None, 'dist': True}
                fm = find(fake, sc, [d + '/*'], '*', 'extra_dist:dirs')
                # nested content: the documentation does not say whether dirs= is
                # recursive -> not judged
                for f in files:
                    if f.startswith(sc + d + '/') and f not in fm.required and \
                       not f.endswith('~'):
                        m.opt.add(f)
        elif k == 'step':
            for p in it['files_str']:
                m.require(sc + p, 'string:files')
            for p in it['extra_str']:
                m.require(sc + p, 'string:extra_deps')
        elif k == 'copy':
            m.require(sc + it['src_str'], 'string:copy_file')
        elif k == 'out':
            if it['src']:
                m.require(sc + it['src'], 'string:' + {'obj': 'object_file', 'exe': 'files',
                                                       'copy': 'copy_file'}[it['form']])
        elif k == 'tsrc':
            if it['how'] == 'string':
                m.require(sc + it['src'], 'string:transpiled-source')
            else:
                m.add(sc + it['src'], it['how'] + ':transpiled', it['dist'])
        elif k == 'obj':
            m.require(sc + it['src_str'], 'string:object_file')
            if it['inc_str']:
                m.add_dir(sc + it['inc_str'], 'string:includes', True)
    return m.finish(files)


class ExtModel(dag.Model):
    """dag.Model plus the steps the ext items add (ids >= 1000)."""

    def __init__(self, spec, ext):
        super().__init__(spec)
        self.ext = ext
        self.find_fed = set()
        byvar = {i['var']: i for i in ext['items'] if 'var' in i}
        objs = {}
        for it in ext['items']:
            sc, k = it['scope'], it['k']
            if k == 'step':
                ins = ['S:' + sc + p for p in it['files_str'] + it['extra_str']]
                ins += ['S:' + sc + byvar[v]['path'] for v in it['vars']]
                s = 'step%d' % it['id']
                self._step(s, it['id'], 'step', ins, ['B:' + sc + it['out']])
                if it['finds']:
                    self.find_fed.add(s)
            elif k == 'copy':
                self._step('copy%d' % it['id'], it['id'], 'copy', ['S:' + sc + it['src_str']],
                           ['B:' + sc + it['out']])
            elif k == 'obj':
                o = 'B:' + sc + it['name'] + '.o'
                objs[it['id']] = o
                self._step('obj%d' % it['id'], it['id'], 'compile',
                           ['S:' + sc + it['src_str']], [o])
            elif k == 'out':
                i, form = it['id'], it['form']
                if form == 'step':
                    self._step('step%d' % i, i, 'step', [], ['B:' + sc + 'xq%d.out' % i])
                elif form == 'obj':
                    self._step('obj%d' % i, i, 'compile', ['S:' + sc + it['src']],
                               ['B:' + sc + 'xq%d.o' % i])
                elif form == 'exe':
                    o = 'B:' + sc + 'xq%d.int/' % i + posixpath.splitext(it['src'])[0] + '.o'
                    self._step('xobj%d' % i, i, 'compile', ['S:' + sc + it['src']], [o])
                    self._step('xlink%d' % i, i, 'link', [o], ['B:' + sc + 'xq%d' % i])
                elif form == 'copy':
                    self._step('copy%d' % i, i, 'copy', ['S:' + sc + it['src']],
                               ['B:' + sc + 'xq%d.out' % i])
                elif form == 'cmd':
                    self._step('cmd%d' % i, i, 'cmd', [], [], always=True)
            elif k == 'tsrc':
                stem = posixpath.splitext(it['src'])[0]
                gen_ext, obj_ext = [(e, o) for t, e, o in (('.l', '.yy.c', '.yy.o'),
                                                           ('.qrc', '.cpp', '.o'))
                                    if it['src'].endswith(t)][0]
                if it['into'] == 'object_file':
                    gen = 'B:' + sc + stem + gen_ext
                    outs = ['B:' + sc + it['name'] + '.o']
                    final = None
                else:
                    d = it['name'] if it['into'] == 'executable' else 'lib' + it['name']
                    gen = 'B:' + sc + d + '.int/' + stem + gen_ext
                    outs = ['B:' + sc + d + '.int/' + stem + obj_ext]
                    final = 'B:' + sc + (it['name'] if it['into'] == 'executable'
                                         else 'lib' + it['name'] + '.a')
                self._step('transpile%d' % it['id'], it['id'], 'transpile',
                           ['S:' + sc + it['src']], [gen])
                self._step('tobj%d' % it['id'], it['id'], 'compile', [gen], outs)
                if final:
                    self._step('tlink%d' % it['id'], it['id'],
                               'link' if it['into'] == 'executable' else 'ar', outs, [final])
            elif k == 'link':
                if it['fn'] == 'executable':
                    out = sc + it['name']
                else:
                    d, b = posixpath.split(it['name'])
                    out = sc + posixpath.join(d, 'lib' + b + '.a')
                ins = [objs[o] for o in it['objs']] + \
                    ['S:' + sc + byvar[v]['path'] for v in it['prebuilt'] + it['libs']]
                self._step('link%d' % it['id'], it['id'],
                           'link' if it['fn'] == 'executable' else 'ar', ins, ['B:' + out])
