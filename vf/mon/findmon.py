"""In-process monitor for C11: every FileFilter.match verdict.

Loaded inside a real `bfg9000 configure` through
BFG9000_VERIF_MONITORS=findmon.  It only observes: FileFilter.match and
FileFilter._match_globs are wrapped (after bfg9000.builtins.find has been
imported by bfg9000 itself – a post-import hook, so that the import order of the
builtins is not disturbed), results are passed through unchanged.

Per call of the build script (the script publishes its call number in
os.environ['VF_CALL']) the monitor counts the evaluations and records every
verdict `exclude_recursive` together with where it came from:

  never         PathGlob three-valued result `never` (pruning by the matcher)
  exclude-glob  an `exclude` simple glob matched
  filter        the user filter function returned exclude_recursive

so that a wrong answer can be pinned on the pruning logic post hoc: no entry the
reference selects may lie in (or be) a pruned directory.
"""
import importlib.abc
import importlib.util
import os
import sys

EVALS = {}        # call -> number of FileFilter.match evaluations
PRUNED = []       # [call, root name, suffix, isdir, source]
VERDICTS = {}     # FindResult name -> count
_installed = False
_patched = False
TARGET = 'bfg9000.builtins.find'


def _call():
    return os.environ.get('VF_CALL') or '-'


def _patch(mod):
    global _patched
    if _patched:
        return
    _patched = True
    FileFilter = mod.FileFilter
    FindResult = mod.FindResult
    orig_globs = FileFilter._match_globs
    orig_match = FileFilter.match
    state = {'globs': None}

    def _match_globs(self, path):
        r = orig_globs(self, path)
        state['globs'] = r
        return r

    def match(self, path):
        state['globs'] = None
        r = orig_match(self, path)
        try:
            c = _call()
            EVALS[c] = EVALS.get(c, 0) + 1
            VERDICTS[r.name] = VERDICTS.get(r.name, 0) + 1
            if r == FindResult.exclude_recursive:
                g = state['globs']
                if g == FindResult.exclude_recursive:
                    hit = False
                    try:
                        hit = any(i.match(path) for i in self.exclude)
                    except Exception:
                        pass
                    source = 'exclude-glob' if hit else 'never'
                else:
                    source = 'filter'
                if len(PRUNED) < 200000:
                    PRUNED.append([c, path.root.name, path.suffix,
                                   bool(path.directory), source])
        except Exception as e:           # the monitor must never disturb
            VERDICTS['monitor-error:' + type(e).__name__] = \
                VERDICTS.get('monitor-error:' + type(e).__name__, 0) + 1
        return r

    FileFilter._match_globs = _match_globs
    FileFilter.match = match


class _Loader(importlib.abc.Loader):
    def __init__(self, inner):
        self.inner = inner

    def create_module(self, spec):
        return self.inner.create_module(spec)

    def exec_module(self, module):
        self.inner.exec_module(module)
        _patch(module)


class _Finder(importlib.abc.MetaPathFinder):
    def find_spec(self, name, path, target=None):
        if name != TARGET:
            return None
        for f in sys.meta_path:
            if f is self:
                continue
            find = getattr(f, 'find_spec', None)
            if find is None:
                continue
            spec = find(name, path, target)
            if spec is not None and spec.loader is not None:
                spec.loader = _Loader(spec.loader)
                return spec
        return None


def install():
    global _installed
    if _installed:
        return
    _installed = True
    if TARGET in sys.modules:
        _patch(sys.modules[TARGET])
    else:
        sys.meta_path.insert(0, _Finder())


def report():
    return {'patched': _patched, 'evals': dict(EVALS),
            'verdicts': dict(VERDICTS), 'pruned': list(PRUNED)}
