"""Spawn monitor (property C09): which environment do bfg9000's children see?

Loaded inside real bfg9000 processes (BFG9000_VERIF_MONITORS=...,spawnmon).
A CPython audit hook on 'subprocess.Popen' records, for every child process the
bfg9000 process starts, its argv and the environment mapping handed to it
(None = inherit).  The ambient environment of the bfg9000 process itself is
recorded at install time.  Nothing is altered; the harness (vf/props/c09.py)
judges the records: a child of a later invocation must see the SAVED variables,
never a value that only the ambient environment of that invocation has.
"""
import os
import sys

AMBIENT = None
SPAWNS = []
_installed = False
_LIMIT = 200


def _s(x):
    if isinstance(x, bytes):
        return os.fsdecode(x)
    return x if isinstance(x, str) else str(x)


def _hook(event, args):
    if event != 'subprocess.Popen' or len(SPAWNS) >= _LIMIT:
        return
    try:
        executable, argv, cwd, env = args
        if isinstance(argv, (str, bytes)):
            av = [_s(argv)[:300]]
        else:
            av = [_s(a)[:160] for a in list(argv)[:12]]
        SPAWNS.append({
            'argv': av,
            'env': None if env is None else {_s(k): _s(v)
                                             for k, v in dict(env).items()},
        })
    except Exception as e:           # never disturb the subject
        SPAWNS.append({'argv': ['<unreadable>'], 'env': {}, 'error': repr(e)})


def install():
    global AMBIENT, _installed
    if _installed:
        return
    AMBIENT = dict(os.environ)
    sys.addaudithook(_hook)
    _installed = True


def report():
    return {'ambient': AMBIENT, 'spawns': list(SPAWNS)}
