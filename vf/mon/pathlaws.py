"""Runtime contracts (icontract) on bfg9000's Path classes.

Conditions record and return True, so they never change what the observed code
does; the caller collects `VIOLATIONS` and `EVALS`.  Installed either by the C12
driver (in-process) or by vf/inject/sitecustomize.py inside real bfg9000 runs
(BFG9000_VERIF_MONITORS=paths).
"""
import functools
import posixpath
import re

import icontract

EVALS = {}
VIOLATIONS = []          # (law, detail dict)
_installed = False
_busy = False            # conditions call the API themselves: no re-entry


class LawBroken(Exception):
    pass


def _count(law):
    EVALS[law] = EVALS.get(law, 0) + 1


def _broken(law, **detail):
    if len(VIOLATIONS) < 200:
        VIOLATIONS.append((law, detail))


def _desc(p):
    try:
        return {'cls': type(p).__name__, 'suffix': p.suffix,
                'root': p.root.name, 'destdir': p.destdir,
                'directory': bool(p.directory)}
    except Exception as e:   # half-built object
        return {'cls': type(p).__name__, 'error': repr(e)}


def _guarded(fn):
    """Run a condition unless we are already inside one (the conditions use the
    API under observation)."""
    def wrapper(*args, **kwargs):
        global _busy
        if _busy:
            return True
        _busy = True
        try:
            fn(*args, **kwargs)
        except Exception as e:   # a law that cannot even be evaluated
            _broken(fn.__name__ + ':raised', error=repr(e),
                    args=[_desc(a) if hasattr(a, 'suffix') else repr(a)
                          for a in args])
        finally:
            _busy = False
        return True
    return functools.wraps(fn)(wrapper)


_DRIVE = re.compile(r'^[^/]:')


def split_drive(suffix):
    m = _DRIVE.match(suffix)
    return (suffix[:2], suffix[2:]) if m else ('', suffix)


def is_unc(suffix):
    return suffix.startswith('//')


def normal_form_problem(p):
    """None if `p` is in normal form, else a short reason."""
    from bfg9000.platforms.basepath import Root, InstallRoot
    s = p.suffix
    if not isinstance(p.root, (Root, InstallRoot)):
        return 'root-type'
    if '\\' in s:
        return 'backslash'
    if is_unc(s):
        return None     # implementation-defined prefix: outside the law
    drive, rest = split_drive(s)
    if p.root == Root.absolute:
        if not rest.startswith('/'):
            return 'absolute-root-relative-suffix'
        body = rest[1:]
    else:
        if drive:
            return 'drive-under-relative-root'
        if rest.startswith('/'):
            return 'relative-root-absolute-suffix'
        body = rest
    if body == '':
        return None
    comps = body.split('/')
    if '' in comps:
        return 'empty-component'
    if '.' in comps:
        return 'dot-component'
    if '..' in comps:
        return 'dotdot-component'
    if not isinstance(p.destdir, bool):
        return 'destdir-type'
    if s == '' and not p.directory:
        return 'root-not-directory'
    return None


# ---- conditions (named functions; argument names match the wrapped methods)

@_guarded
def post_init(self):
    _count('init.normal')
    why = normal_form_problem(self)
    if why:
        _broken('init.normal', why=why, path=_desc(self))


@_guarded
def post_parent(self, result):
    _count('parent.inverse')
    if not result.directory:
        _broken('parent.directory', path=_desc(self), result=_desc(result))
    if result.root != self.root or result.destdir != self.destdir:
        _broken('parent.root', path=_desc(self), result=_desc(result))
    if is_unc(self.suffix):
        return
    back = result.append(self.basename())
    if not (back == self):
        _broken('parent.inverse', path=_desc(self), parent=_desc(result),
                back=_desc(back))


@_guarded
def post_to_json(self, result):
    _count('json.roundtrip')
    back = type(self).from_json(result)
    if not (back == self) or bool(back.directory) != bool(self.directory) \
       or hash(back) != hash(self):
        _broken('json.roundtrip', path=_desc(self), json=result,
                back=_desc(back))


@_guarded
def post_eq(self, rhs, result):
    _count('eq.hash')
    if result is True and hash(self) != hash(rhs):
        _broken('eq.hash', a=_desc(self), b=_desc(rhs))
    if result is True and not (rhs == self):
        _broken('eq.symmetric', a=_desc(self), b=_desc(rhs))


@_guarded
def post_relpath(self, start, prefix, result):
    from bfg9000.platforms.basepath import Root
    if prefix or is_unc(self.suffix) or self.root == Root.absolute:
        return
    _count('relpath.inverse')
    if not isinstance(result, str):
        return
    back = start.append(result)
    if back.suffix != self.suffix or back.root != self.root:
        _broken('relpath.inverse', path=_desc(self), start=_desc(start),
                rel=result, back=_desc(back))


@_guarded
def post_append(self, path, result):
    _count('append.confined')
    from bfg9000.platforms.basepath import Root
    if not isinstance(path, str) or is_unc(self.suffix):
        return
    if result.destdir != self.destdir:
        _broken('append.destdir', path=_desc(self), arg=path,
                result=_desc(result))
    if result.root != self.root and result.root != Root.absolute:
        _broken('append.root', path=_desc(self), arg=path,
                result=_desc(result))


def install():
    """Attach the contracts to BasePath (idempotent)."""
    global _installed
    if _installed:
        return
    from bfg9000.platforms.basepath import BasePath
    e = icontract.ensure
    BasePath.__init__ = e(post_init, error=LawBroken)(BasePath.__init__)
    BasePath.parent = e(post_parent, error=LawBroken)(BasePath.parent)
    BasePath.to_json = e(post_to_json, error=LawBroken)(BasePath.to_json)
    BasePath.__eq__ = e(post_eq, error=LawBroken)(BasePath.__eq__)
    BasePath.relpath = e(post_relpath, error=LawBroken)(BasePath.relpath)
    BasePath.append = e(post_append, error=LawBroken)(BasePath.append)
    _installed = True


def drain():
    v = list(VIOLATIONS)
    del VIOLATIONS[:]
    return v


def report():
    """Plug-in interface for vf/inject/tracer.py (subject side)."""
    return {'evals': dict(EVALS), 'violations': [[l, d] for l, d in drain()]}
