"""Invariant monitor on bfg9000.environment.EnvVarDict (property C09, monitor a).

After EVERY mutator of the variable store (and after construction / from_json)

    apply(initial, changes) == current        and        initial is untouched

where `apply` is written here (start from a copy of the initial variables; a
change of None removes the name, any other change sets it).  The wrappers call
the original method, then look; they never alter a result or an exception.
Looking at `changes` is made side-effect free: the property materialises
`_changes` lazily, so if the attribute was absent before the look it is removed
again afterwards (otherwise the monitor itself would turn a lazily-correct
object into an eagerly-stale one).

Used in-process by vf/props/c09.py and inside real bfg9000 processes
(BFG9000_VERIF_MONITORS=envmon, see vf/inject/tracer.py).
"""
import functools

EVALS = {}               # op -> number of invariant evaluations
VIOLATIONS = []          # (law, detail dict)
_installed = False

MUTATORS = ('__setitem__', '__delitem__', 'clear', 'pop', 'popitem',
            'setdefault', 'update', 'reset', '__ior__')
_KEY0 = '_vf_initial0'
_BROKEN = '_vf_broken'


def _count(op):
    EVALS[op] = EVALS.get(op, 0) + 1


def _broken(law, **detail):
    if len(VIOLATIONS) < 100:
        VIOLATIONS.append((law, detail))


def apply_changes(initial, changes):
    """The reference meaning of "changes applied to the initial variables"."""
    out = dict(initial)
    for k, v in changes.items():
        if v is None:
            out.pop(k, None)
        else:
            out[k] = v
    return out


def _short(d, keys=None, limit=12):
    """A small printable excerpt of a variable mapping."""
    items = [(k, d[k]) for k in (keys if keys is not None else d) if k in d]
    return {str(k)[:60]: (v[:80] if isinstance(v, str) else repr(v)[:80])
            for k, v in items[:limit]}


def look(obj, op):
    """Evaluate the invariant on `obj` after `op`; record, never raise."""
    d = obj.__dict__
    if d.get(_BROKEN):
        _count('skipped-after-violation')
        return
    try:
        _count(op)
        init0 = d.get(_KEY0)
        if init0 is None:             # object older than the monitor
            init0 = d[_KEY0] = dict(obj.initial)
        initial = obj.initial
        if initial != init0:
            d[_BROKEN] = True
            diff = sorted(set(k for k in set(initial) | set(init0)
                              if initial.get(k, None) != init0.get(k, None)),
                          key=str)
            _broken('initial-modified', op=op, keys=[str(k) for k in diff[:8]],
                    initial_then=_short(init0, diff),
                    initial_now=_short(initial, diff))
            return
        had = '_changes' in d
        try:
            changes = dict(obj.changes)
        finally:
            if not had:
                d.pop('_changes', None)
        want = dict(dict.items(obj))
        got = apply_changes(init0, changes)
        if got != want:
            d[_BROKEN] = True
            keys = sorted((k for k in set(got) | set(want)
                           if k not in got or k not in want or got[k] != want[k]),
                          key=str)
            _broken('changes-stale', op=op, lazy_changes=not had,
                    keys=[str(k) for k in keys[:8]],
                    current=_short(want, keys),
                    applied=_short(got, keys),
                    changes=_short(changes, None))
    except Exception as e:            # the law could not be evaluated
        d[_BROKEN] = True
        _broken('monitor-raised', op=op, error=repr(e))


def _wrap_mutator(name, orig):
    @functools.wraps(orig)
    def wrapper(self, *args, **kwargs):
        try:
            return orig(self, *args, **kwargs)
        finally:
            if name == 'reset':
                # reset() re-establishes the invariant by construction of a
                # fresh change record; judge it on its own.
                self.__dict__.pop(_BROKEN, None)
            look(self, name)
    return wrapper


def install():
    """Patch the wrappers onto EnvVarDict in place (idempotent).  The class
    object stays the same, so objects already handed out (the `environ`
    builtin of tool chain files) are covered."""
    global _installed
    if _installed:
        return
    from bfg9000.environment import EnvVarDict

    for name in MUTATORS:
        orig = getattr(EnvVarDict, name)     # __ior__ is inherited from dict
        setattr(EnvVarDict, name, _wrap_mutator(name, orig))

    orig_init = EnvVarDict.__init__

    @functools.wraps(orig_init)
    def init(self, *args, **kwargs):
        orig_init(self, *args, **kwargs)
        try:
            self.__dict__[_KEY0] = dict(self.initial)
        except Exception:
            pass
        look(self, '__init__')
    EnvVarDict.__init__ = init

    orig_from_json = EnvVarDict.__dict__['from_json'].__func__

    def from_json(cls, data):
        d = orig_from_json(cls, data)
        try:
            d.__dict__[_KEY0] = dict(d.initial)
        except Exception:
            pass
        look(d, 'from_json')
        return d
    from_json.__doc__ = orig_from_json.__doc__
    EnvVarDict.from_json = classmethod(from_json)
    _installed = True


def drain():
    v = list(VIOLATIONS)
    del VIOLATIONS[:]
    return v


def snapshot_evals():
    return dict(EVALS)


def report():
    """Plug-in interface for vf/inject/tracer.py (subject side)."""
    return {'evals': dict(EVALS), 'violations': [[l, d] for l, d in drain()]}
