#!/bin/bash
# usage: tools/sweep.sh <tier> <seeds...>   (env CHECKS="C01 C02 ..." to restrict)
# Runs every registered check for the given seeds and prints one line per run.
tier=$1; shift
cd "$(dirname "$0")/.."
checks=${CHECKS:-$(/venv/bin/python -c "import json;print(' '.join(c['property_id'] for c in json.load(open('MANIFEST.json'))['checks']))")}
for seed in "$@"; do
  for c in $checks; do
    out=$(VERIF_SEED=$seed ./check $c --tier $tier 2>&1)
    rc=$?
    echo "seed=$seed $c rc=$rc :: $(echo "$out" | tail -1)"
    if [ $rc -ne 0 ]; then echo "$out" | grep -E "^(VIOLATION|INCONCLUSIVE|  reason)" | head -8; fi
  done
done
