#!/bin/bash
# usage: tools/seedcheck.sh <Cnn> <dir with patch.diff + demo> [tier] [extra checks...]
# Validates a seeded change in a scratch worktree of /repo HEAD and runs our checks against it.
id=$1; dir=$2; tier=${3:-quick}; shift 3
wt=/tmp/seed-$id-$$
git -C /repo worktree add -q --detach $wt HEAD || exit 9
trap "git -C /repo worktree remove --force $wt" EXIT
demo=$(ls $dir/demo.* | head -1)
run_demo() { case $demo in *.py) /venv/bin/python $demo $1;; *) bash $demo $1;; esac; }
echo "== demo on pristine HEAD"; run_demo $wt > /tmp/seed-$id-pristine.log 2>&1; echo "rc=$? $(tail -1 /tmp/seed-$id-pristine.log)"
if ! git -C $wt apply $dir/patch.diff 2>/dev/null; then
  git -C $wt apply --3way $dir/patch.diff || { echo "PATCH DOES NOT APPLY"; exit 8; }
fi
echo "== baseline with the change"; /venv/bin/python /verif/tools/baseline.py $wt | tail -2
echo "== demo with the change"; run_demo $wt > /tmp/seed-$id-patched.log 2>&1; echo "rc=$? $(tail -1 /tmp/seed-$id-patched.log)"
cd /verif
for c in $id "$@"; do
  echo "== ./check $c --tier $tier against the change"
  VERIF_REPO=$wt ./check $c --tier $tier 2>&1 | grep -E "^(VIOLATION|INCONCLUSIVE|C[0-9]+ tier)" | sed 's/replay=[^ ]* //' | sort | uniq -c | sort -rn | head -12
done
