#!/venv/bin/python
"""tools/seedstore.py <seed-id> <property> <srcdir> <caught_by> <needs> -- copy a confirmed seeded
change into /verif/seeded/<seed-id>/ with meta.json."""
import json, os, shutil, sys
sid, prop, src, caught, needs = sys.argv[1:6]
extra = sys.argv[6] if len(sys.argv) > 6 else ''
dst = os.path.join(os.path.dirname(os.path.dirname(os.path.abspath(__file__))), 'seeded', sid)
os.makedirs(dst, exist_ok=True)
for n in os.listdir(src):
    if n.startswith(('patch.diff', 'demo.', 'notes.md')):
        shutil.copy(os.path.join(src, n), os.path.join(dst, n))
meta = {
    'id': sid, 'breaks_property': prop,
    'needs_to_manifest': needs,
    'confirmed': 'tools/seedcheck.sh %s %s: patch applies to /repo HEAD in a scratch worktree; '
                 'pinned suite still passes there (missing=0); demo exits 0 on pristine HEAD and '
                 'non-zero with the change' % (prop, src),
    'caught_by': caught,
    'notes': extra,
    'author': 'independent sub-agent given only the property text and a scratch worktree',
}
json.dump(meta, open(os.path.join(dst, 'meta.json'), 'w'), indent=1)
print('stored', dst)
