#!/venv/bin/python
"""Regenerate MANIFEST.json from the table below (kept valid at all times)."""
import json
import os
import sys

HERE = os.path.dirname(os.path.dirname(os.path.abspath(__file__)))
BASELINE_OFF = ('cd /repo && env -u BFG9000_VERIF /venv/bin/python -m pytest -ra -q '
                '-p no:cacheprovider --timeout=900 --continue-on-collection-errors')

# pid -> (category, technique, text, note, design_ref)
CHECKS = {}


def reg(pid, category, technique, text, note, ref):
    CHECKS[pid] = (category, technique, text, note, ref)


reg('C12', 'exploration',
    'runtime contracts (icontract postconditions) on the live Path classes + reference-model '
    'monitor over a completely enumerated input space',
    'Every Path construction/parent/append/relpath/to_json/==/string call made by the workload and '
    'by the implementation itself is checked by postconditions attached to the real classes; '
    'results are compared with an independent stack model and posixpath/ntpath. The enumerated '
    'string space (<=3 components quick, <=4 thorough, x separators x prefixes x 15 roots x 2 '
    'flavours) is covered completely; longer strings and set laws are sampled.  string() / '
    'realize() against plain, odd and root-directory bases and with a $(DESTDIR) staging '
    'directory equal ordinary joining.',
    'Trusted: CPython posixpath/ntpath as the meaning of "ordinary joining"; the 30-line stack '
    'model in vf/props/c12.py. Leading // (UNC / POSIX implementation-defined) is outside the law.',
    'DESIGN.md §2 C12')

reg('C01', 'exploration',
    'recorded argv/environ of really spawned processes (recording stubs under GNU make) compared '
    'with the literals the generated script specified; differential vs. option-free baseline steps',
    'Generated build.bfg scripts place hostile strings in 30 argument contexts (incl. lists and '
    'dicts the script changes after the call, one-word option strings, options of the other '
    'link mode); real bfg9000 '
    'configure + real GNU make + /bin/sh run them and C recording stubs log the exact argv/environ '
    'that execve delivered. Failing slots are re-run isolated and single characters / pairs are '
    'probed to name the mechanism. Quick: every printable ASCII char + Unicode sample + curated '
    'metasyntax + pairs/random sample; thorough: 5 shapes per char, all ordered pairs of 33 loaded '
    'chars, 1.5k random strings per context.',
    'Trusted: stubs/vstub.c logging; GNU make 4.3 and /bin/sh (dash) on this machine are the '
    'reference tools. Says nothing about strings or contexts the generator does not produce.',
    'DESIGN.md §2 C01')
reg('C02', 'exploration',
    'recorded argv/environ of processes spawned when the generated build.ninja is evaluated and '
    'executed by the reference Ninja evaluator (vf/ref/refninja.py) via /bin/sh -c',
    'Same workload and oracle as C01 with --backend ninja; the manifest is parsed, evaluated '
    '(rule/build/file scoping, $in/$out escaping, ${cmd} indirection) and executed by refninja.',
    'Trusted: refninja (written from the Ninja manual, self-tested in setup, cross-checked against '
    'GNU make by C06); no real ninja binary exists in this sandbox.',
    'DESIGN.md §2 C02')

reg('C03', 'exploration',
    'observed rebuild sets (recording stub tool chain under real GNU make / the reference Ninja '
    'evaluator) compared with the closure computed from an independent model of the generated '
    'script, over single-file touch histories',
    'Random build graphs are rendered to build.bfg; after a clean default build, a no-op build, a '
    'build of everything, one touch per input/intermediate file and clean+build of aliases/tests, '
    'the set of steps that really executed must equal the model upstream/downstream closure '
    '(missing = lost dependency, extra = spurious dependency, twice = two producers). Injected '
    'step failures (the stub tool dies before writing) must be retried by the next build with '
    'everything downstream. Graphs include object_files()/copy_files() lists, library() nodes '
    'under three library modes and targets declared by a submodule script; a file object inside '
    'a command word must be a dependency (recorded finding).',
    'Trusted: vf/gen/dag.py Model; stubs; refninja for the Ninja half. Ninja legitimately '
    're-runs a deps=gcc edge whose output was touched (excluded, counted); symlink/hardlink '
    'copies share their source mtime (their re-run is optional, never required).',
    'DESIGN.md §2 C03')
reg('C06', 'translation_validation',
    'differential execution: the same generated project configured for Make and Ninja, both '
    'build files executed with recording stubs, records and compile_commands.json compared '
    'step by step modulo documented differences',
    'Per generated script and option set: same configure verdict, same steps, same products, '
    'same argv/cwd/env per step, same rebuild sets after touching a file, every '
    'compile_commands.json entry equal to what really ran, both compdbs equal.',
    'Trusted: refninja; whitelist of documented differences (Ninja colour flag, leading ./).',
    'DESIGN.md §2 C06')

reg('C05', 'exploration',
    'configure verdicts and the output paths really requested from the stub tool chain, observed '
    'over an enumerated pair space and random source sets, plus source-tree hashing across the '
    'whole configure/build/regenerate/clean/dist lifecycle',
    'All 14028 pairs of a 168-path space (thorough; sample in quick) must configure with two '
    'distinct objects under the build dir; same-stem pairs and scripts naming an output twice must '
    'be refused with a non-zero status on both back ends; random sets (incl. ../ out of '
    'submodules, no intermediate dirs) go through the full lifecycle with the source tree hashed.',
    'Trusted: stubs; compile_commands.json output fields in the configure-only part (cross-checked '
    'by C06 against what really runs).',
    'DESIGN.md §2 C05')

reg('C09', 'exploration',
    'invariant hook on the live EnvVarDict (in-process and inside real configure/regenerate '
    'processes), save/load round-trip monitor incl. synthesised older format versions, and '
    'end-to-end byte comparison of build files regenerated under perturbed ambient environments',
    'apply(initial, changes) == current is asserted after every mutator on random operation '
    'sequences and inside real bfg9000 processes running generated toolchain files; '
    'Environment.load(save(e)) is compared attribute-wise incl. v4..v16 snapshots derived by '
    'inverting the documented upgrades; configure under E1 then regenerate/env/run under a hostile '
    'E2 must give byte-identical build files and exactly the saved variables; the snapshot '
    'written and read with open() behaving as under different locale encodings is the same '
    'configuration.',
    'Trusted: plain-dict model of EnvVarDict; the inverse-upgrade synthesiser (calibrated against '
    'test/data/environment/v4); stub tool chain.',
    'DESIGN.md §2 C09')
reg('C15', 'exploration',
    'whole-tree snapshot diff around real `make|ninja install` / `uninstall` (real gcc, doppel, '
    'patchelf traced through wrappers) against an independent placement model; readelf on '
    'installed ELF files',
    'Generated projects with every installable kind, random directory= arguments (relative, '
    'Path(.., InstallRoot.x) and absolute strings), prefixes with spaces and DESTDIR forms; a '
    'directed family with a vendored (pre-built, in the source tree) shared library as run-time '
    'dependency; created entries must equal the model set, nothing else may change '
    '(bystander files planted), RUNPATH must name installed library dirs only, installed programs '
    'run with the build tree moved away, uninstall removes exactly what install created.',
    'Trusted: the placement model in vf/gen/c15gen.py (from docs and the project integration '
    'tests); readelf; Make, and for every third project (all in thorough) the Ninja back end '
    'through vf/ref/refninja.py (configure-time DESTDIR only).',
    'DESIGN.md §2 C15')
reg('C20', 'exploration',
    'reference MS C-runtime argv parser as oracle over a completely enumerated small-alphabet '
    'argument space + parsed .sln/.proj/.bfg_uuid files across real configure/regenerate histories',
    'All argument lists over {a, space, tab, ", \\} up to the stated lengths are joined/quoted by '
    'the real bfg9000.shell.windows functions and parsed back by an independent implementation of '
    'parse_cmdline (pre- and post-2008 rules); Exec attributes of really generated .proj files '
    'are decoded layer by layer; solution histories are checked for well-formed XML, unique and '
    'stable GUIDs and dangling references; duplicate project names must be refused.',
    'Trusted: vf/ref/msvcrt_argv.py (self-tested on the MSDN table). No MSBuild/Windows process '
    'is ever run: only the generated files and the quoting API are observed.',
    'DESIGN.md §2 C20')

reg('C08', 'exploration',
    'edit histories on generated projects with the back end itself (make / reference ninja) doing '
    'the regeneration; build files byte-compared with a fresh configure at the same path after '
    'every step; out-of-tree process tracer decides whether bfg9000 ran again',
    'After each edit (scripts, options, toolchain, files/dirs matching or not matching find '
    'patterns, submodule removal ...) the back end is run, the primary build files must equal a '
    'fresh configure of the same tree (replaying the recorded configure command and environment), '
    'and a second run must neither invoke bfg9000 nor build anything. A back end that refuses to '
    'run is regen-blocked, silent staleness regen-missed, wrong content regen-differs. Histories '
    'are dealt from a deck of all edit kinds (every kind in every run) with directed (edit the '
    'lazy regeneration skips, structural edit) pairs.',
    'Trusted: the harness replay of the configure command as "same saved configuration" (C09 '
    'covers the saved file itself); refninja for Ninja; timestamp discipline.',
    'DESIGN.md §2 C08')
reg('C11', 'exploration',
    'return values of find_files/find_paths dumped from inside real configure runs compared '
    'with a naive reference matcher written from the documentation; in-process monitor of '
    'FileFilter.match pruning verdicts; dist lists from the generated rule and real archives',
    'Random trees (names with glob characters, blanks, leading ~, symbolic links) x documented '
    'pattern grammar (up to four separate ** runs) x type/extra/exclude/filter/dist/cache; result '
    'sets must lie between the reference lower and upper answers (upper only where the docs are '
    'open), every entry must exist, repeated / cache-flipped calls agree, nothing selected lies '
    'below a pruned directory, found+extra files are in the dist list.',
    'Trusted: vf/ref/refglob.py (self-checked against 16 hand-written expectations each run).',
    'DESIGN.md §2 C11')

reg('C04', 'exploration',
    'files on disk + recording stubs observed across build / no-op build / touch / clean of '
    'generated projects whose names were first calibrated against hand-written reference build '
    'files for the same tool',
    'Every special character (3 positions where position matters), two-character combinations and '
    'random names are placed in 8 roles (source file/dir, build_step output + consumer, copy '
    'output, executable name, output directory sentinel, find_files directory, submodule '
    'directory), one project per name and back end. A name is only demanded of bfg9000 if some '
    'textbook escaping makes GNU make / the reference Ninja (rule syntax and depfile syntax '
    'separately) create the file, stay quiet on the second run and notice a touch.',
    'Trusted: the calibration renderings (raw / backslash per special char / $$); stubs; refninja '
    '(incl. its implementation of the Ninja depfile grammar). Mechanisms are named by the single '
    'characters that reproduce a failure on their own.',
    'DESIGN.md §2 C04')

reg('C10', 'fault_enumeration',
    'crash failpoints (os._exit at every file-system mutation boundary seen by an out-of-tree '
    'audit-hook tracer) and exception failpoints (every rule-emission hook entry) enumerated '
    'completely per scenario, each followed by one and two ordinary runs of the back end',
    'For each scenario the uninterrupted run is traced; every boundary k (before/after open, '
    'before/after close, remove, utime, mkdir/replace; truncated-write variants in thorough) is '
    'replayed from a restored tree copy with the bfg9000 process killed at k, and every hook '
    'entry with ENOSPC / RuntimeError / KeyboardInterrupt raised; the follow-up must either exit '
    'non-zero or leave the build file and declared regeneration outputs byte-equal to the '
    'uninterrupted run. A raising script must leave the build file untouched. Scenarios: '
    'back-end triggered regenerations, a fresh configure, a second configure with other options, '
    'a plain regenerate; every other chunk with TMPDIR on another file system; every other '
    'follow-up starts with a hand-typed `bfg9000 regenerate --lazy`.',
    'Trusted: kill modelled at Python-level boundaries (kernel-level torn writes only as '
    'truncation variants); tree copies preserve ns mtimes; refninja for the Ninja half.',
    'DESIGN.md §2 C10')

reg('C14', 'exploration',
    'real gcc/clang builds (GNU make; reference Ninja evaluator) of generated library DAGs; exit status and stdout of the built '
    'executables (in place, from elsewhere, after renaming the build dir), readelf/nm on every '
    'dynamic output, recorded link command lines',
    'Random and directed DAGs of static/shared/dual/whole-archive libraries and executables in '
    'nested output dirs under all four --enable/--disable-shared/static modes; each executable '
    'must print the value the generator model computes, RUNPATH entries must be $ORIGIN-relative '
    'and resolve every needed project library, forwarded link options / whole-archive members / '
    'system libraries must be present, and everything must still run after the build dir moved.',
    'Trusted: gcc 12, clang 14, GNU ld (--as-needed default), glibc ld.so, readelf, nm; Make for '
    'every case, the Ninja back end (vf/ref/refninja.py running the real tools) for one library '
    'mode per DAG in quick and every mode in thorough.',
    'DESIGN.md §2 C14')
reg('C16', 'exploration',
    'behavioural probes of really compiled programs (printed predefined macros, readelf sections / '
    'program headers / entry address, compiler diagnostics) compared with the same probe on a '
    'hand-written reference build using textbook flags',
    'Every semantic option and documented value x language x placement (global, per-target, '
    'link, toolchain file, CFLAGS-style variables), singletons in quick and all pairs in '
    'thorough (gcc, clang, gfortran); a sub-case is only demanded if the hand-written compiler '
    'command shows the machine can honour it (calibration), and probes are labelled strong '
    '(omitting the flag changes the result) or weak.',
    'Trusted: vf/ref/c16ref.py flag table and probes; the installed compilers.',
    'DESIGN.md §2 C16')

reg('C13', 'exploration',
    'byte comparison of the files written by repeated real configure / regenerate runs of the '
    'same project at the same absolute paths under varied PYTHONHASHSEED, cwd, command spelling '
    'and unrelated environment',
    'Generated projects touching every set/dict-keeping builtin are configured 6-10 times into a '
    'fresh build dir; Makefile / build.ninja / compile_commands.json / *.pc must be byte-identical '
    'to the reference run, auxiliary files equal as sets / JSON; a differing run is re-run to '
    'attribute the factor (hash seed, invocation, environment). Positive control: .bfg_find_deps '
    'order does differ between seeds.',
    'Trusted: os.listdir order cannot be varied here (stated); msbuild out of scope (uuid4).',
    'DESIGN.md §2 C13')
reg('C17', 'exploration',
    'real pkg-config (pkgconf 1.8.1) reading the generated installed and -uninstalled .pc files, '
    'real gcc building and running a consumer with exactly those flags, --exists over a version '
    'grid compared with an independent tuple comparator; every hostile value first calibrated '
    'with a hand-written .pc',
    'Generated package descriptions (hostile tokens in options / include dirs / link options / '
    'paths, library shapes with transitive static deps, requirement lists with random specifier '
    'sets, auto_fill on/off); flags must denote exactly the declared dirs/options/libs, the '
    'consumer must build and run (plain and --static), accepted versions must be exactly those '
    'the original specifiers accept, unsatisfiable sets must fail configure.',
    'Trusted: pkgconf as the reader; vf/ref/pcref.py comparator and reference .pc writer.',
    'DESIGN.md §2 C17')

reg('C07', 'exploration',
    'compiler invocations recorded by tracing wrappers around the real gcc/g++/clang, program '
    'output and exit status of the back end, over generated edit histories of C/C++ projects; '
    'header names admitted by calibration against hand-written Makefile / build.ninja files fed '
    'with the compilers raw -MMD output',
    'After each edit (modify / add / remove-include-then-delete / rename / move header, edit '
    'sources, a source or a header saved with a mistake - the build fails - and put right '
    'again, no-op, clean) and build: exit 0, program output equals the model checksum, compiled '
    'TUs are a superset of the model must-recompile set, a no-op compiles and links nothing, a '
    'vanished header that is no longer included never blocks the build, clean removes every '
    'product and clean+build restores them. Make and the reference Ninja.',
    'Trusted: the include-DAG model in vf/gen/c07gen.py; wrappers; refninja depfile grammar.',
    'DESIGN.md §2 C07')
reg('C18', 'exploration',
    'member lists and contents of archives produced by the real dist targets (doppel) compared '
    'with the generator model of what the scripts read; the unpacked archive is configured and '
    'rebuilt with the stub tool chain and compared step by step with the original build',
    'dag graphs extended with find_files variants, submodules with their own scripts/options, '
    'extra_dist, header_directory and dist=False on twelve file-creating builtins; archives '
    '(zip, gzip, bzip2; before and after a build; after files were added to cached search '
    'directories) must contain every required file byte-identical, no dist=False file, nothing '
    'unmentioned and nothing from the build dir, under one top-level directory.',
    'Trusted: vf/ref/c18ref.py (glob/extra/exclude/filter and distribution model); doppel.',
    'DESIGN.md §2 C18')
reg('C19', 'exploration',
    'probe logs written by generated scripts during real configure / regenerate runs (name '
    'visibility, submodule() return values, argv namespaces), paths in compile_commands.json, '
    'Makefile prerequisites and on disk after a stub build, compared with the generator model',
    'Random submodule trees (depth <= 4, ../ edges, repeated inclusion, option submodules, raising '
    'children) where every script probes every name assigned anywhere; 14 target kinds with '
    'inputs/outputs/include dirs/extra_deps in current, nested, parent and sibling directories; '
    'project arguments in plain / --x- / mixed spellings incl. enable/with pairs, compared across '
    'spellings, with an independent argparse-semantics model, and across three kinds of '
    'regeneration (same cwd, other cwd + perturbed environment, triggered by make).  Every log '
    'record also carries the process working directory, which must be the running script\'s own.',
    'Trusted: vf/gen/c19gen.py simulator and vf/ref/c19args.py.',
    'DESIGN.md §2 C19')

NOT_APPLICABLE = {}

ALL = ['C%02d' % i for i in range(1, 21)]


def main():
    building = {p: 'check not built yet in this session (see DESIGN.md §5b build order); '
                   'no claim is made until its monitor exists and was validated'
                for p in ALL if p not in CHECKS and p not in NOT_APPLICABLE}
    m = {
        'version': 1,
        'setup_cmd': '/venv/bin/python -m vf.setup',
        'hooks': {
            'guard': 'BFG9000_VERIF',
            'enable': 'no source hooks in /repo: all instrumentation is out-of-tree '
                      '(vf/inject/sitecustomize.py on PYTHONPATH of the subject processes, inert '
                      'unless BFG9000_VERIF=1; in-process checks monkey-patch contracts onto the '
                      'imported classes). /venv installs /repo editable, so every check runs '
                      "/repo's current working tree.",
            'baseline_off_cmd': BASELINE_OFF,
            'source_commits': [],
            'add_only': True,
        },
        'engines': [
            {'name': 'vf', 'path': 'vf/', 'serves_properties': sorted(CHECKS),
             'kind_free_text': 'runtime-monitoring harness: seeded workload generators, recording stub '
                               'tool chain (stubs/vstub.c), out-of-tree sitecustomize tracer/failpoints, '
                               'icontract contracts, reference models as oracles'},
        ],
        'checks': [],
        'notes': 'Exit codes: 0 held on what was observed, 1 VIOLATION, 2 INCONCLUSIVE (monitor floor not '
                 'reached; never folded into held). known_findings.json lists recorded and fixed defects.',
        'not_applicable': [{'property_id': p, 'reason': r}
                           for p, r in sorted({**building, **NOT_APPLICABLE}.items())],
    }
    for pid in sorted(CHECKS):
        cat, tech, text, note, ref = CHECKS[pid]
        m['checks'].append({
            'property_id': pid,
            'quick_cmd': './check %s --tier quick' % pid,
            'thorough_cmd': './check %s --tier thorough' % pid,
            'evidence_file': 'evidence/%s.json' % pid,
            'replay_cmd_template': './check %s --replay {path}' % pid,
            'engine': 'vf',
            'level_claimed': {'category': cat, 'text': text, 'design_ref': ref},
            'level_note': note,
            'technique': tech,
        })
    with open(os.path.join(HERE, 'MANIFEST.json'), 'w') as f:
        json.dump(m, f, indent=1)
        f.write('\n')
    print('wrote MANIFEST.json with', len(CHECKS), 'checks')


if __name__ == '__main__':
    main()
