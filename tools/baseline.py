#!/venv/bin/python
"""Run the repository's pinned suite with the guard OFF and compare with BASELINE.json."""
import json
import os
import subprocess
import sys
import tempfile
import xml.etree.ElementTree as ET

base = json.load(open('/root/.vp/BASELINE.json'))
fd, xml = tempfile.mkstemp(suffix='.xml')
os.close(fd)
env = dict(os.environ)
env.pop('BFG9000_VERIF', None)
repo = sys.argv[1] if len(sys.argv) > 1 else '/repo'
cmd = ['/venv/bin/python', '-m', 'pytest', '-ra', '-q', '-p', 'no:cacheprovider',
       '--timeout=900', '--continue-on-collection-errors', '--junitxml=' + xml, '-x' if False else '-q']
p = subprocess.run(cmd, cwd=repo, env=env, stdout=subprocess.PIPE, stderr=subprocess.STDOUT)
passed = set()
for tc in ET.parse(xml).getroot().iter('testcase'):
    if not list(tc):
        passed.add('%s::%s' % (tc.get('classname'), tc.get('name')))
os.remove(xml)
stable = set(base['stable_pass'])
missing = sorted(stable - passed)
print('stable_pass=%d passed_now=%d missing=%d' % (len(stable), len(passed), len(missing)))
for m in missing[:40]:
    print('  NOT PASSING:', m)
sys.exit(1 if missing else 0)
