#!/venv/bin/python
"""tools/mkround.py <letter> [Cnn ...] -- prepare one round of seeded-change sub-agents: for every
property a scratch worktree of /repo HEAD (/tmp/mut/<Cnn><letter>), an output directory
(/tmp/mut-out/<Cnn><letter>/{1,2}) and a prompt file (/tmp/mut/prompt-<Cnn><letter>.txt) that holds
nothing but the property record and the generic request (nothing from /verif)."""
import json
import os
import subprocess
import sys

HERE = os.path.dirname(os.path.dirname(os.path.abspath(__file__)))
letter = sys.argv[1]
want = [a.upper() for a in sys.argv[2:]]

PROMPT = '''You are helping to test a verification effort by mutation. The subject is jimporter/bfg9000 (a
Python build-configuration system: runs build.bfg scripts and emits Makefiles, build.ninja,
MSBuild files and compile_commands.json). A scratch git worktree of it has been prepared for you at

    {wt}

Environment facts: run Python as /venv/bin/python (all dependencies are installed there; /venv/bin
is not on PATH - add it when you need the console scripts bfg9000, 9k, bfg9000-depfixer, doppel).
The installed copy of bfg9000 is a different checkout; to make Python and the console scripts use
YOUR worktree put it first on PYTHONPATH (PYTHONPATH={wt} /venv/bin/bfg9000 ...). There is no
network, no ninja and no msbuild; GNU make 4.3, gcc 12, clang 14, gfortran, ar, pkg-config
(pkgconf), patchelf, readelf are present. `mopack` is unusable here: pass
`--no-resolve-packages` to every `bfg9000 configure`.

## The property (this is all you are told about what is being verified)

{prop}

## What to produce

TWO independent changes to the source of bfg9000 (files under {wt}/bfg9000/ only, never the
tests), in two different functions/mechanisms, each of which

 (a) breaks the property above for some inputs / histories / schedules,
 (b) still imports and runs, and leaves the repository's own test suite 100% green:
         cd {wt} && /venv/bin/python -m pytest -q -p no:cacheprovider --timeout=900
     (1223 tests pass on the unchanged tree in about 30 s; exactly the same must pass with your
     change - no test edited, skipped or deleted),
 (c) is realistic: it looks like a plausible refactoring, optimisation, clean-up or well-meant
     bug fix that a maintainer could commit, not sabotage (no random constants, no dead branches
     keyed on magic strings),
 (d0) is NOT one of the first ideas anyone has.  Others have already produced, many times over:
     comparing or sorting paths as plain strings (string prefix instead of component prefix,
     suffix-string sort), replacing an ordered list by a set, dropping one character from an
     escape table, keeping the first instead of the last duplicate, a missing try/finally around
     a stack push, '<' vs '<=' tie-breaks, turning a prerequisite into an order-only one,
     touching a stamp before instead of after the command, memoising a result that depends on
     the caller, converting a string lazily after the script context is gone, emitting a
     variable only when the first user needs it, ignoring one input in an up-to-date check,
     escaping '#' before instead of after the ';' split of a target-specific variable, writing
     a step's environment as a prefix of its first word instead of exporting it, saving the
     configuration after instead of before the build script ran, an early return placed before
     the DESTDIR step, json.dumps(ensure_ascii=False), one dict shared by two modes via
     dict.fromkeys, lstrip()/rstrip() with a character set where a prefix was meant,
     moving .PHONY from a stamp file to the outputs, a visited-set in ForwardOptions.recurse,
     re-detecting the back end's version on regenerate, a try/finally that saves a map after a
     failure, a fast path that skips copying or lexing, wrapping long lines of a build file.
     Do not hand in another one of those.  Look deeper:
     state carried from one run to the next (caches, saved files, time stamps), error and
     abort paths, features that are rarely combined, the second back end, tool-chain or
     platform variants, the order of two writes, values that are computed twice in two places
     and must agree, defaults that apply only when an argument is omitted.
 (d) needs something SPECIFIC to manifest - a particular multi-step sequence of operations, an
     unusual but legitimate input, a crash or fault at a particular point, a particular
     combination of features, or two cooperating sites that each look fine alone. Changes that
     ordinary use (the simplest project, the most common characters, the first build) would expose
     at once are not wanted. Read the code the property is anchored in and look for the corners:
     the less obvious the better, as long as the violation is real and demonstrable.

For each change i in (1, 2) write into {out}/i/ :

 * patch.diff  - `git -C {wt} diff` against HEAD; must apply with `git apply` to a pristine
                 checkout of the same commit;
 * demo.py     - a standalone program run as `/venv/bin/python demo.py <path-of-a-checkout>`; it
                 must use the code of THAT checkout (insert the path at the front of sys.path
                 and/or PYTHONPATH of the subprocesses it starts), exercise the property
                 end-to-end where possible (real configure, real make, real compiler when the
                 property is about them), work in temporary directories it removes again, print
                 what it observed, and exit 0 when the property held and non-zero when violated:
                 0 on the pristine worktree, non-zero with your patch applied;
 * notes.md    - what the change does, which clause of the property it breaks, exactly what is
                 needed for it to manifest, and why the existing tests do not notice.

Procedure: make change 1, run the full test suite, run the demo on the changed and (after
by saving the diff and `git -C {wt} checkout -- .`; NEVER use `git stash`: the stash is shared with other worktrees of this repository that other people are using right now) on the pristine tree,
save the files; restore the pristine tree; do the same for change 2. Leave the worktree clean
(`git -C {wt} status` empty) when you finish. Do not commit anything.

Rules: work only inside {wt}, {out} and temporary directories. Never read, write or run anything
under /repo or /verif. Do not install anything.

Final reply (short): for each change - file/function touched, what triggers the violation, and
confirmation of the three runs (suite green with the change; demo 0 on pristine; demo non-zero
with the change). Also mention, in one or two lines each, anything you noticed on the PRISTINE
code that already seems to violate the property (with the input that shows it).
'''
props = [json.loads(l) for l in open(os.path.join(HERE, 'properties.jsonl'))]
os.makedirs('/tmp/mut', exist_ok=True)
for p in props:
    if want and p['id'] not in want:
        continue
    tag = p['id'] + letter
    wt = '/tmp/mut/' + tag
    out = '/tmp/mut-out/' + tag
    if not os.path.exists(wt):
        subprocess.check_call(['git', '-C', '/repo', 'worktree', 'add', '-q', '--detach', wt, 'HEAD'])
    for i in '12':
        os.makedirs(os.path.join(out, i), exist_ok=True)
    text = {k: p[k] for k in ('id', 'title', 'statement', 'quantifier', 'why_tests_cant', 'anchors')}
    with open('/tmp/mut/prompt-%s.txt' % tag, 'w') as f:
        f.write(PROMPT.format(wt=wt, out=out, prop=json.dumps(text, indent=1, ensure_ascii=False)))
    print(tag, wt, out)
