#!/bin/bash
# usage: tools/seedall.sh [tier]   -- regression matrix: every stored seeded change against the
# check of its property, in a scratch worktree of /repo HEAD (patch applied there, removed after).
# Prints one line per change: CAUGHT / MISSED / NOAPPLY.  Scratch-copy runs write no evidence/.
tier=${1:-quick}
cd "$(dirname "$0")/.."
for d in seeded/*/; do
  sid=$(basename $d)
  prop=$(/venv/bin/python -c "import json,sys;print(json.load(open('$d/meta.json'))['breaks_property'])")
  wt=/tmp/seedall-$sid-$$
  git -C /repo worktree add -q --detach $wt HEAD || { echo "$sid WORKTREE-FAILED"; continue; }
  if git -C $wt apply "$PWD/$d/patch.diff" 2>/dev/null || git -C $wt apply --3way "$PWD/$d/patch.diff" 2>/dev/null; then
    out=$(VERIF_REPO=$wt ./check $prop --tier $tier 2>&1)
    n=$(echo "$out" | grep -c '^VIOLATION')
    if [ "$n" -gt 0 ]; then echo "$sid CAUGHT by $prop $tier ($(echo "$out" | grep '^VIOLATION' | sed 's/.*mechanism=//' | sort -u | head -3 | tr '\n' ' '))"
    else echo "$sid MISSED by $prop $tier :: $(echo "$out" | tail -1 | cut -c1-160)"; fi
  else
    echo "$sid NOAPPLY (patch no longer applies to /repo HEAD)"
  fi
  git -C /repo worktree remove --force $wt
done
