#!/opt/veriftools/pyvenv/bin/python
"""tools/validate.py -- validate MANIFEST.json and evidence/*.json against the given schemas,
and check that every claimed property has evidence and every property is claimed or listed
not_applicable."""
import glob, json, os, sys
import jsonschema
root = os.path.dirname(os.path.dirname(os.path.abspath(__file__)))
def load(p): return json.load(open(p))
bad = 0
man = load(os.path.join(root, 'MANIFEST.json'))
try:
    jsonschema.validate(man, load('/root/.vp/MANIFEST.schema.json'))
    print('MANIFEST.json ok: %d checks, not_applicable=%s' % (len(man['checks']), man.get('not_applicable')))
except jsonschema.ValidationError as e:
    bad += 1; print('MANIFEST.json INVALID:', e.message)
es = load('/root/.vp/EVIDENCE.schema.json')
claimed = [c['property_id'] for c in man['checks']]
for pid in claimed:
    p = os.path.join(root, 'evidence', pid + '.json')
    if not os.path.exists(p):
        bad += 1; print('missing evidence', pid); continue
    try:
        jsonschema.validate(load(p), es)
    except jsonschema.ValidationError as e:
        bad += 1; print(pid, 'evidence INVALID:', e.message[:300])
props = [json.loads(l)['id'] for l in open(os.path.join(root, 'properties.jsonl')) if l.strip()]
na = [x['property_id'] if isinstance(x, dict) else x for x in man.get('not_applicable', [])]
for pid in props:
    if pid not in claimed and pid not in na:
        bad += 1; print('property neither claimed nor not_applicable:', pid)
print('evidence files ok' if not bad else 'PROBLEMS: %d' % bad)
sys.exit(1 if bad else 0)
